// Package vstore is the harness implementation of command.Store: the persisted
// state is the sequence of logs handed to InsertLogs, and every read method is
// a replay of that sequence (the contract the engine relies on). InsertLogs
// can be gated: the batch is shown to the scheduler, which decides whether it
// is written, fails, or is written just before the process "dies".
package vstore

import (
	"context"
	"errors"
	"math/big"
	"sync"

	ledger "github.com/formancehq/ledger/internal"
	"github.com/formancehq/ledger/internal/storage/sqlutils"
	"github.com/formancehq/stack/libs/go-libs/metadata"
)

// Decision of the gate for one InsertLogs call.
type Decision int

const (
	Write        Decision = iota // the batch is written, InsertLogs returns nil
	Fail                         // nothing is written, InsertLogs returns an error
	WriteThenDie                 // the batch is written, InsertLogs returns an error
)

var ErrInjected = errors.New("verif: injected store failure")

// Arrival is a batch waiting at the gate.
type Arrival struct {
	Logs   []*ledger.ChainedLog
	Decide chan Decision
}

type Store struct {
	mu   sync.Mutex
	logs []*ledger.ChainedLog
	// Gate, when non-nil, receives every InsertLogs call before it takes effect.
	Gate chan Arrival
	// OnInsert is called (under the store mutex) after a batch has been written:
	// all is the whole persisted sequence, the batch is its last n entries.
	OnInsert func(all []*ledger.ChainedLog, n int)
	// FailWith, when non-nil, is the error returned by a failing InsertLogs.
	FailWith error
	// InsertDelay, when non-nil, is called before a batch is written (latency).
	InsertDelay func()
	// ReadDelay, when non-nil, is called before every read (free-running jitter).
	ReadDelay func()
	// FailKeyLookup, when non-nil, is asked before every lookup of an idempotency key, of a reference and of a
	// transaction by id: true makes the lookup fail.
	FailKeyLookup func(ctx context.Context) bool
}

// ErrRead is what a failing read returns.
var ErrRead = errors.New("verif: store read failed")

func New() *Store { return &Store{} }

// Logs returns a copy of the persisted sequence.
func (s *Store) Logs() []*ledger.ChainedLog {
	s.mu.Lock()
	defer s.mu.Unlock()
	return append([]*ledger.ChainedLog{}, s.logs...)
}

// Seed writes logs directly (initial ledger content).
func (s *Store) Seed(logs ...*ledger.ChainedLog) {
	s.mu.Lock()
	defer s.mu.Unlock()
	s.logs = append(s.logs, logs...)
}

func (s *Store) delay() {
	if d := s.ReadDelay; d != nil {
		d()
	}
}

func (s *Store) InsertLogs(ctx context.Context, logs ...*ledger.ChainedLog) error {
	d := Write
	if s.Gate != nil {
		a := Arrival{Logs: logs, Decide: make(chan Decision, 1)}
		s.Gate <- a
		d = <-a.Decide
	}
	if d == Fail {
		return s.failure()
	}
	if s.InsertDelay != nil {
		s.InsertDelay()
	}
	s.mu.Lock()
	s.logs = append(s.logs, logs...)
	if s.OnInsert != nil {
		s.OnInsert(s.logs, len(logs))
	}
	s.mu.Unlock()
	if d == WriteThenDie {
		return s.failure()
	}
	return nil
}

func (s *Store) failure() error {
	if s.FailWith != nil {
		return s.FailWith
	}
	return ErrInjected
}

func txOf(l *ledger.ChainedLog) *ledger.Transaction {
	switch p := l.Data.(type) {
	case ledger.NewTransactionLogPayload:
		return p.Transaction
	case ledger.RevertedTransactionLogPayload:
		return p.RevertTransaction
	}
	return nil
}

func (s *Store) GetBalance(ctx context.Context, address, asset string) (*big.Int, error) {
	s.delay()
	s.mu.Lock()
	defer s.mu.Unlock()
	balance := new(big.Int)
	for _, l := range s.logs {
		tx := txOf(l)
		if tx == nil {
			continue
		}
		for _, p := range tx.Postings {
			if p.Asset != asset {
				continue
			}
			if p.Source == address {
				balance.Sub(balance, p.Amount)
			}
			if p.Destination == address {
				balance.Add(balance, p.Amount)
			}
		}
	}
	return balance, nil
}

func (s *Store) GetAccount(ctx context.Context, address string) (*ledger.Account, error) {
	s.delay()
	s.mu.Lock()
	defer s.mu.Unlock()
	md := metadata.Metadata{}
	for _, l := range s.logs {
		switch p := l.Data.(type) {
		case ledger.NewTransactionLogPayload:
			for k, v := range p.AccountMetadata[address] {
				md[k] = v
			}
		case ledger.SetMetadataLogPayload:
			if p.TargetType == ledger.MetaTargetTypeAccount && p.TargetID == address {
				for k, v := range p.Metadata {
					md[k] = v
				}
			}
		case ledger.DeleteMetadataLogPayload:
			if p.TargetType == ledger.MetaTargetTypeAccount && p.TargetID == address {
				delete(md, p.Key)
			}
		}
	}
	return &ledger.Account{Address: address, Metadata: md}, nil
}

func (s *Store) GetLastLog(ctx context.Context) (*ledger.ChainedLog, error) {
	s.mu.Lock()
	defer s.mu.Unlock()
	if len(s.logs) == 0 {
		return nil, nil
	}
	return s.logs[len(s.logs)-1], nil
}

func (s *Store) reverted(id *big.Int) bool {
	for _, l := range s.logs {
		if p, ok := l.Data.(ledger.RevertedTransactionLogPayload); ok && p.RevertedTransactionID.Cmp(id) == 0 {
			return true
		}
	}
	return false
}

func (s *Store) expanded(tx *ledger.Transaction) *ledger.ExpandedTransaction {
	cp := *tx
	cp.Reverted = s.reverted(tx.ID)
	return &ledger.ExpandedTransaction{Transaction: cp}
}

func (s *Store) GetLastTransaction(ctx context.Context) (*ledger.ExpandedTransaction, error) {
	s.mu.Lock()
	defer s.mu.Unlock()
	for i := len(s.logs) - 1; i >= 0; i-- {
		if tx := txOf(s.logs[i]); tx != nil {
			return s.expanded(tx), nil
		}
	}
	return nil, sqlutils.ErrNotFound
}

func (s *Store) ReadLogWithIdempotencyKey(ctx context.Context, key string) (*ledger.ChainedLog, error) {
	s.delay()
	if f := s.FailKeyLookup; f != nil && f(ctx) {
		return nil, ErrRead
	}
	s.mu.Lock()
	defer s.mu.Unlock()
	for _, l := range s.logs {
		if l.IdempotencyKey == key {
			return l, nil
		}
	}
	return nil, sqlutils.ErrNotFound
}

func (s *Store) GetTransactionByReference(ctx context.Context, ref string) (*ledger.ExpandedTransaction, error) {
	s.delay()
	if f := s.FailKeyLookup; f != nil && f(ctx) {
		return nil, ErrRead
	}
	s.mu.Lock()
	defer s.mu.Unlock()
	for _, l := range s.logs {
		if tx := txOf(l); tx != nil && tx.Reference == ref {
			return s.expanded(tx), nil
		}
	}
	return nil, sqlutils.ErrNotFound
}

func (s *Store) GetTransaction(ctx context.Context, txID *big.Int) (*ledger.Transaction, error) {
	s.delay()
	if f := s.FailKeyLookup; f != nil && f(ctx) {
		return nil, ErrRead
	}
	s.mu.Lock()
	defer s.mu.Unlock()
	for _, l := range s.logs {
		if tx := txOf(l); tx != nil && tx.ID.Cmp(txID) == 0 {
			return &s.expanded(tx).Transaction, nil
		}
	}
	return nil, sqlutils.ErrNotFound
}
