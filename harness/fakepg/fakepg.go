// Package fakepg is a database/sql driver standing in for PostgreSQL where no
// database is available: bun (pgdialect) interpolates arguments client-side, so
// the driver receives the final SQL text. It records every statement, and can
// answer the simple paginated SELECTs of bunpaginate from an in-memory table of
// ids (WHERE id <op> N ... ORDER BY id ASC|DESC LIMIT k OFFSET m).
package fakepg

import (
	"context"
	"database/sql"
	"database/sql/driver"
	"io"
	"regexp"
	"sort"
	"strconv"
	"sync"

	"github.com/uptrace/bun"
	"github.com/uptrace/bun/dialect/pgdialect"
)

// Server is the state behind one fake database.
type Server struct {
	mu sync.Mutex
	// Statements received, in order.
	Statements []string
	// IDs is the in-memory collection served to paginated SELECTs.
	IDs []int64
	// Answer, when non-nil, is asked first for the rows of a statement.
	Answer func(sql string) (cols []string, rows [][]driver.Value, ok bool)
	// ExecArgs collects the arguments of prepared statements executed with arguments (COPY rows).
	ExecArgs [][]driver.Value
	// Eval, when non-nil, answers every query (an error is returned to the caller).
	Eval func(sql string) (cols []string, rows [][]driver.Value, err error)
}

func (s *Server) Take() []string {
	s.mu.Lock()
	defer s.mu.Unlock()
	out := s.Statements
	s.Statements = nil
	return out
}

// Open returns a *bun.DB over the fake server.
func Open(s *Server) *bun.DB {
	return bun.NewDB(sql.OpenDB(connector{s}), pgdialect.New())
}

// OpenDiscard opens the database the way the ledger does (sqlutils.OpenSQLDB): columns the model does not know are dropped.
func OpenDiscard(s *Server) *bun.DB {
	return bun.NewDB(sql.OpenDB(connector{s}), pgdialect.New(), bun.WithDiscardUnknownColumns())
}

type connector struct{ s *Server }

func (c connector) Connect(context.Context) (driver.Conn, error) { return &conn{c.s}, nil }
func (c connector) Driver() driver.Driver                        { return drv{} }

type drv struct{}

func (drv) Open(string) (driver.Conn, error) { return nil, io.EOF }

type conn struct{ s *Server }

func (c *conn) Prepare(q string) (driver.Stmt, error) { return &stmt{c, q}, nil }
func (c *conn) Close() error                          { return nil }
func (c *conn) Begin() (driver.Tx, error)             { return tx{}, nil }
func (c *conn) QueryContext(ctx context.Context, q string, args []driver.NamedValue) (driver.Rows, error) {
	return c.s.query(q)
}
func (c *conn) ExecContext(ctx context.Context, q string, args []driver.NamedValue) (driver.Result, error) {
	c.s.mu.Lock()
	c.s.Statements = append(c.s.Statements, q)
	c.s.mu.Unlock()
	return driver.RowsAffected(0), nil
}

type tx struct{}

func (tx) Commit() error   { return nil }
func (tx) Rollback() error { return nil }

type stmt struct {
	c *conn
	q string
}

func (s *stmt) Close() error  { return nil }
func (s *stmt) NumInput() int { return -1 }
func (s *stmt) Exec(args []driver.Value) (driver.Result, error) {
	if len(args) > 0 {
		s.c.s.mu.Lock()
		s.c.s.ExecArgs = append(s.c.s.ExecArgs, append([]driver.Value{}, args...))
		s.c.s.mu.Unlock()
	}
	return s.c.ExecContext(context.Background(), s.q, nil)
}
func (s *stmt) Query(args []driver.Value) (driver.Rows, error) { return s.c.s.query(s.q) }

type rows struct {
	cols []string
	data [][]driver.Value
	i    int
}

func (r *rows) Columns() []string { return r.cols }
func (r *rows) Close() error      { return nil }
func (r *rows) Next(dest []driver.Value) error {
	if r.i >= len(r.data) {
		return io.EOF
	}
	copy(dest, r.data[r.i])
	r.i++
	return nil
}

var (
	reWhere  = regexp.MustCompile(`(?i)\(\s*"?id"?\s*(<=|>=|<|>)\s*'?(-?\d+)'?\s*\)`)
	reOrder  = regexp.MustCompile(`(?i)ORDER BY\s+"?id"?\s+(ASC|DESC)`)
	reLimit  = regexp.MustCompile(`(?i)LIMIT\s+(\d+)`)
	reOffset = regexp.MustCompile(`(?i)OFFSET\s+(\d+)`)
)

// last returns the last match: the outermost LIMIT / OFFSET of a statement comes last
func last(re *regexp.Regexp, q string) []string {
	all := re.FindAllStringSubmatch(q, -1)
	if len(all) == 0 {
		return nil
	}
	return all[len(all)-1]
}

// Last is exported for harnesses answering statements themselves.
func Last(re *regexp.Regexp, q string) []string { return last(re, q) }

func (s *Server) query(q string) (driver.Rows, error) {
	s.mu.Lock()
	s.Statements = append(s.Statements, q)
	ids := append([]int64{}, s.IDs...)
	answer := s.Answer
	eval := s.Eval
	s.mu.Unlock()
	if eval != nil {
		cols, data, err := eval(q)
		if err != nil {
			return nil, err
		}
		return &rows{cols: cols, data: data}, nil
	}
	if answer != nil {
		if cols, data, ok := answer(q); ok {
			return &rows{cols: cols, data: data}, nil
		}
	}
	// every WHERE (id <op> N) restricts the collection
	for _, m := range reWhere.FindAllStringSubmatch(q, -1) {
		n, _ := strconv.ParseInt(m[2], 10, 64)
		kept := ids[:0]
		for _, id := range ids {
			ok := false
			switch m[1] {
			case "<":
				ok = id < n
			case "<=":
				ok = id <= n
			case ">":
				ok = id > n
			case ">=":
				ok = id >= n
			}
			if ok {
				kept = append(kept, id)
			}
		}
		ids = kept
	}
	desc := false
	if m := reOrder.FindStringSubmatch(q); m != nil {
		desc = m[1] == "DESC" || m[1] == "desc"
	}
	sort.Slice(ids, func(i, j int) bool {
		if desc {
			return ids[i] > ids[j]
		}
		return ids[i] < ids[j]
	})
	if m := last(reOffset, q); m != nil {
		n, _ := strconv.Atoi(m[1])
		if n > len(ids) {
			n = len(ids)
		}
		ids = ids[n:]
	}
	if m := last(reLimit, q); m != nil {
		n, _ := strconv.Atoi(m[1])
		if n < len(ids) {
			ids = ids[:n]
		}
	}
	out := &rows{cols: []string{"id"}}
	for _, id := range ids {
		out.data = append(out.data, []driver.Value{strconv.FormatInt(id, 10)})
	}
	return out, nil
}
