// Package sched is a deterministic goroutine scheduler built on the
// `verif`-tagged hook points of the repository (internal/verifhook).
//
// Every process under control runs in its own goroutine and carries its id in
// its context. At every verifhook.Yield the goroutine parks until the scheduler
// releases it again; verifhook.Note events (emitted inside critical sections)
// are only recorded. One Step(p) therefore executes exactly the code between
// two yield points of p, atomically with respect to every other controlled
// process, which is what one action of the TLA+ specification stands for.
package sched

import (
	"context"
	"fmt"
	"runtime"
	"sync"
	"time"

	"github.com/formancehq/ledger/internal/verifhook"
)

type ctxKey struct{}

// WithProc attaches a process id to a context.
func WithProc(ctx context.Context, id string) context.Context {
	return context.WithValue(ctx, ctxKey{}, id)
}

// ProcOf returns the process id carried by ctx ("" if none).
func ProcOf(ctx context.Context) string {
	if ctx == nil {
		return ""
	}
	if v, ok := ctx.Value(ctxKey{}).(string); ok {
		return v
	}
	return ""
}

// Event is one hook event.
type Event struct {
	Seq      int
	Proc     string
	Point    string
	Blocking bool
	KV       map[string]any
}

// Report is what a Step ends with.
type Report struct {
	Proc     string
	Point    string // yield point reached; "" when Returned or Stuck
	KV       map[string]any
	Returned bool // the process function returned
	Stuck    bool // the watchdog expired: the goroutine is blocked somewhere we cannot see
	Panic    any  // non-nil when the process function panicked
}

type proc struct {
	id      string
	resume  chan bool // true: continue, false: die (Goexit)
	parked  bool
	point   string
	kv      map[string]any
	done    bool
	started bool
	// arrivals counts the yields reached; seen is how many of them the driver has been told about.
	// The position of a process is this state, not a message: a step that outlives the watchdog
	// (blocked inside the implementation, or merely slow on a loaded machine) is reported by the
	// next Step / Await once it does arrive, and never mistaken for the result of a later step.
	arrivals int
	seen     int
	doneSeen bool
	panicked any
}

// Sched controls a set of processes.
type Sched struct {
	mu       sync.Mutex
	procs    map[string]*proc
	notify   chan struct{}
	events   []Event
	seq      int
	Watchdog time.Duration
	dead     bool
	// FreeRun makes Yield record-only (plus optional jitter) instead of parking.
	FreeRun bool
	Jitter  func(point string)
}

// New creates a scheduler and installs it as the hook sink.
func New() *Sched {
	s := &Sched{
		procs:    map[string]*proc{},
		notify:   make(chan struct{}, 1),
		Watchdog: 2 * time.Second,
	}
	verifhook.Sink = s.sink
	return s
}

func (s *Sched) wake() {
	select {
	case s.notify <- struct{}{}:
	default:
	}
}

func kvmap(kv []any) map[string]any {
	m := map[string]any{}
	for i := 0; i+1 < len(kv); i += 2 {
		m[fmt.Sprint(kv[i])] = kv[i+1]
	}
	return m
}

func (s *Sched) sink(ctx context.Context, blocking bool, point string, kv ...any) {
	id := ProcOf(ctx)
	m := kvmap(kv)
	s.mu.Lock()
	s.seq++
	s.events = append(s.events, Event{Seq: s.seq, Proc: id, Point: point, Blocking: blocking, KV: m})
	if !blocking || s.FreeRun || id == "" {
		jitter := s.Jitter
		free := s.FreeRun
		s.mu.Unlock()
		if blocking && free && jitter != nil {
			jitter(point)
		}
		return
	}
	p := s.procs[id]
	if p == nil || s.dead {
		dead := s.dead
		s.mu.Unlock()
		if dead {
			runtime.Goexit()
		}
		return
	}
	p.parked = true
	p.point = point
	p.kv = m
	p.arrivals++
	s.mu.Unlock()
	s.wake()
	if cont := <-p.resume; !cont {
		runtime.Goexit()
	}
}

// Spawn registers process id running fn; the goroutine is parked at the
// pseudo yield point "start" until the first Step.
func (s *Sched) Spawn(ctx context.Context, id string, fn func(ctx context.Context)) {
	p := &proc{id: id, resume: make(chan bool, 1), parked: true, point: "start"}
	s.mu.Lock()
	s.procs[id] = p
	s.mu.Unlock()
	pctx := WithProc(ctx, id)
	go func() {
		if cont := <-p.resume; !cont {
			return
		}
		exited := true
		defer func() {
			r := recover()
			s.mu.Lock()
			if r == nil && exited {
				// runtime.Goexit (process killed): nothing to report
				p.doneSeen = true
			}
			p.done = true
			p.parked = false
			p.panicked = r
			s.mu.Unlock()
			s.wake()
		}()
		fn(pctx)
		exited = false
	}()
}

// State of a process: ("", false) unknown; point where it is parked; done.
func (s *Sched) State(id string) (point string, parked bool, done bool) {
	s.mu.Lock()
	defer s.mu.Unlock()
	p := s.procs[id]
	if p == nil {
		return "", false, false
	}
	return p.point, p.parked, p.done
}

// Step releases process id from its yield point and waits for it to reach the next
// one (or to return). If the previous step of id ended in a watchdog time-out and the
// process has arrived since, that arrival is what is reported (nothing is released):
// every yield reached is reported exactly once, in order.
func (s *Sched) Step(id string) Report {
	s.mu.Lock()
	p := s.procs[id]
	if p == nil {
		s.mu.Unlock()
		return Report{Proc: id, Stuck: true}
	}
	if r, ok := s.news(p); ok {
		s.mu.Unlock()
		return r
	}
	if p.done {
		s.mu.Unlock()
		return Report{Proc: id, Stuck: true}
	}
	if !p.parked {
		// still inside the implementation since an earlier step: give it another watchdog period
		s.mu.Unlock()
		return s.Await(id)
	}
	p.parked = false
	p.point = ""
	s.mu.Unlock()
	p.resume <- true
	return s.Await(id)
}

// news: an arrival or a return of p the driver has not been told about (s.mu held)
func (s *Sched) news(p *proc) (Report, bool) {
	if p.arrivals > p.seen {
		p.seen = p.arrivals
		return Report{Proc: p.id, Point: p.point, KV: p.kv}, true
	}
	if p.done && !p.doneSeen {
		p.doneSeen = true
		return Report{Proc: p.id, Returned: true, Panic: p.panicked}, true
	}
	return Report{}, false
}

// Await waits for process id to reach a yield point or to return.
func (s *Sched) Await(id string) Report {
	s.mu.Lock()
	d := s.Watchdog
	s.mu.Unlock()
	return s.await(id, d)
}

func (s *Sched) await(id string, d time.Duration) Report {
	timer := time.NewTimer(d)
	defer timer.Stop()
	for {
		s.mu.Lock()
		p := s.procs[id]
		if p == nil {
			s.mu.Unlock()
			return Report{Proc: id, Stuck: true}
		}
		if r, ok := s.news(p); ok {
			s.mu.Unlock()
			return r
		}
		s.mu.Unlock()
		select {
		case <-s.notify:
		case <-time.After(200 * time.Microsecond):
		case <-timer.C:
			return Report{Proc: id, Stuck: true}
		}
	}
}

// TryAwait waits up to d for process id (used to find out whether a process that
// was blocked inside the implementation has been woken).
func (s *Sched) TryAwait(id string, d time.Duration) (Report, bool) {
	r := s.await(id, d)
	return r, !r.Stuck
}

// Events returns a copy of the events recorded so far.
func (s *Sched) Events() []Event {
	s.mu.Lock()
	defer s.mu.Unlock()
	return append([]Event{}, s.events...)
}

// EventsSince returns the events with Seq > seq.
func (s *Sched) EventsSince(seq int) []Event {
	s.mu.Lock()
	defer s.mu.Unlock()
	out := []Event{}
	for _, e := range s.events {
		if e.Seq > seq {
			out = append(out, e)
		}
	}
	return out
}

// LastSeq returns the sequence number of the last recorded event.
func (s *Sched) LastSeq() int {
	s.mu.Lock()
	defer s.mu.Unlock()
	return s.seq
}

// Record appends a harness-level event (not coming from a hook).
func (s *Sched) Record(procID, point string, kv ...any) {
	s.mu.Lock()
	defer s.mu.Unlock()
	s.seq++
	s.events = append(s.events, Event{Seq: s.seq, Proc: procID, Point: point, KV: kvmap(kv)})
}

// Kill abandons every controlled goroutine: parked ones exit through
// runtime.Goexit at their yield point, later yields exit immediately.
func (s *Sched) Kill() {
	s.mu.Lock()
	s.dead = true
	var parked []*proc
	for _, p := range s.procs {
		if p.parked && !p.done {
			parked = append(parked, p)
			p.parked = false
		}
	}
	s.mu.Unlock()
	for _, p := range parked {
		select {
		case p.resume <- false:
		default:
		}
	}
}
