package main

import (
	"context"
	"database/sql"
	"fmt"
	"io"
	"math/big"
	"sync"
	"time"

	ledger "github.com/formancehq/ledger/internal"
	"github.com/formancehq/ledger/internal/bus"
	"github.com/formancehq/ledger/internal/engine/command"
	"github.com/formancehq/ledger/verifharness/sched"
	"github.com/formancehq/ledger/verifharness/tlaio"
	"github.com/formancehq/ledger/verifharness/vstore"
	"github.com/formancehq/stack/libs/go-libs/logging"
	"github.com/formancehq/stack/libs/go-libs/metadata"
)

// Step is one action of a behaviour emitted by TLC (EngineGen.tla) with the
// projection of the specification's state after it.
type Step struct {
	A       string   `json:"a"`
	P       string   `json:"p"`
	At      string   `json:"at"`
	Rs      string   `json:"rs"`
	Code    string   `json:"code"`
	Txid    int64    `json:"txid"`
	Applied bool     `json:"applied"`
	Flavour *int     `json:"flavour,omitempty"` // which store error a crash step uses (replays of a recorded execution)
	LL      int64    `json:"ll"`
	LT      int64    `json:"lt"`
	SL      int      `json:"sl"`
	NR      int      `json:"nr"`
	WL      []string `json:"wl"`
	NQ      int      `json:"nq"`
	Inf     []int64  `json:"inf"`
	NP      int      `json:"np"`
}

type procState struct {
	cancel       context.CancelFunc
	cancelled    bool
	triedBlocked bool
	req          Req
	started      bool
	returned     bool
	resp         Resp
	logID        int64 // id of the log it chained in the current generation (-1: none)
}

// world is one execution: a store that survives crashes and a sequence of
// commander generations over it.
type world struct {
	failLookup sync.Map // request -> true: its next lookup of an idempotency key fails
	w          *tlaio.Writer
	store      *vstore.Store
	gate       chan vstore.Arrival
	rec        *recorder
	reqs       map[string]Req
	procs      map[string]*procState
	gen        int
	s          *sched.Sched
	cmd        *command.Commander
	locker     *command.DefaultLocker
	refr       *command.Referencer
	runDone    chan any
	atGate     *vstore.Arrival
	unGated    int               // logs handed to the batcher and not yet seen at the gate
	byLog      map[string]string // "<gen>/<log id>" -> request that chained it
	lastSeq    int
	mu         sync.Mutex
	dmu        sync.Mutex
	free       bool
	nStuck     int
	nSkipped   int
	nDiverge   int
	closed     bool
	flavour    int
	survived   bool
}

// errors a database driver may return from a failing InsertLogs: whatever the
// error, nothing must be acknowledged
var failureFlavours = []error{
	vstore.ErrInjected,
	fmt.Errorf("inserting logs: %w", context.Canceled),
	fmt.Errorf("inserting logs: %w", context.DeadlineExceeded),
	sql.ErrConnDone,
	io.ErrUnexpectedEOF,
	sql.ErrTxDone,
}

var flavourCounter int

func seedLogs(withTx bool) []*ledger.ChainedLog {
	if !withTx {
		// a ledger whose history holds metadata entries only
		return []*ledger.ChainedLog{ledger.NewSetMetadataOnAccountLog(ledger.Now(), "m", metadata.Metadata{"payer": "a"}).ChainLog(nil)}
	}
	tx0 := ledger.NewTransaction().WithPostings(ledger.NewPosting("world", "a", asset, big.NewInt(3))).WithIDUint64(0)
	tx0.Metadata = metadata.Metadata{}
	l0 := ledger.NewTransactionLog(tx0, map[string]metadata.Metadata{}).ChainLog(nil)
	l1 := ledger.NewSetMetadataOnAccountLog(ledger.Now(), "m", metadata.Metadata{"payer": "a"}).ChainLog(l0)
	return []*ledger.ChainedLog{l0, l1}
}

func newWorld(w *tlaio.Writer, reqs map[string]Req, gated bool, seedTx bool) *world {
	x := &world{w: w, store: vstore.New(), rec: &recorder{}, reqs: reqs, procs: map[string]*procState{}, byLog: map[string]string{}}
	x.store.Seed(seedLogs(seedTx)...)
	x.store.FailKeyLookup = func(ctx context.Context) bool {
		_, ok := x.failLookup.Load(sched.ProcOf(ctx))
		return ok
	}
	if gated {
		x.gate = make(chan vstore.Arrival, 8)
		x.store.Gate = x.gate
	}
	for p, r := range reqs {
		x.procs[p] = &procState{req: r, logID: -1}
	}
	x.byLog["seed/0"], x.byLog["seed/1"] = "init", "init"
	x.store.OnInsert = x.onInsert
	x.rec.onPub = func(ev map[string]any) {
		if by, _ := ev["by"].(string); by != "" {
			ev["ik"] = x.reqs[by].Ik
		} else {
			ev["ik"] = ""
		}
		x.emit(ev)
	}
	return x
}

func (x *world) emit(m map[string]any) {
	x.mu.Lock()
	defer x.mu.Unlock()
	if x.closed {
		// a goroutine of an abandoned commander finishing late: not part of any execution
		return
	}
	_ = x.w.Write(m)
}

// startGen builds a new commander over the surviving store (Init reads the
// last log and the last transaction) and starts its batch runner.
func (x *world) startGen() error {
	x.s = sched.New()
	x.s.Watchdog = 150 * time.Millisecond
	x.s.FreeRun = x.free
	x.lastSeq = 0
	x.locker = command.NewDefaultLocker()
	x.refr = command.NewReferencer()
	x.cmd = command.New(x.store, x.locker, command.NewCompiler(64), x.refr, bus.NewLedgerMonitor(x.rec, "l"))
	if err := x.cmd.Init(context.Background()); err != nil {
		return err
	}
	x.runDone = make(chan any, 1)
	cmd, done := x.cmd, x.runDone
	go func() {
		defer func() { done <- recover() }()
		cmd.Run(logging.ContextWithLogger(context.Background(), logging.NewLogrus(quietLogger())))
	}()
	x.atGate = nil
	x.unGated = 0
	return nil
}

// digest folds the hook events since the last call into the harness mirror:
// which request chained which log id, how many logs were handed to the batcher.
func (x *world) digest() {
	x.dmu.Lock()
	defer x.dmu.Unlock()
	for _, e := range x.s.EventsSince(x.lastSeq) {
		switch e.Point {
		case "chained":
			if id, ok := e.KV["id"].(*big.Int); ok && e.Proc != "" {
				x.byLog[fmt.Sprintf("%d/%d", x.gen, id.Int64())] = e.Proc
				if ps := x.procs[e.Proc]; ps != nil {
					ps.logID = id.Int64()
				}
			}
		case "appended":
			x.unGated++
		}
		if e.Seq > x.lastSeq {
			x.lastSeq = e.Seq
		}
	}
}

// awaitGate waits for the batch the runner must hand to InsertLogs now.
func (x *world) awaitGate() {
	if x.gate == nil || x.atGate != nil || x.unGated == 0 {
		return
	}
	select {
	case a := <-x.gate:
		x.atGate = &a
		x.unGated -= len(a.Logs)
	case <-time.After(2 * time.Second):
		x.nStuck++
	}
}

func (x *world) persisted(id int64) bool {
	for _, l := range x.store.Logs() {
		if l.ID.Int64() == id {
			return true
		}
	}
	return false
}

// onInsert (called by the store, under its mutex, when a batch became durable)
// writes the abstract form of the new logs.
func (x *world) onInsert(logs []*ledger.ChainedLog, n int) {
	x.digest()
	out := []map[string]any{}
	for i := len(logs) - n; i < len(logs); i++ {
		var prev *ledger.ChainedLog
		if i > 0 {
			prev = logs[i-1]
		}
		by := x.byLog[fmt.Sprintf("%d/%d", x.gen, logs[i].ID.Int64())]
		od := false
		if by != "" {
			od = x.reqs[by].Od
		}
		out = append(out, absLog(prev, logs[i], by, od))
	}
	x.emit(map[string]any{"ev": "persist", "logs": out})
}

func (x *world) obs(line map[string]any) {
	ll, lt := command.VerifHeads(x.cmd)
	snap := command.VerifLockerSnapshot(x.locker)
	line["ll"], line["lt"] = ll.Int64(), lt.Int64()
	line["sl"] = len(x.store.Logs())
	line["nr"] = len(command.VerifReferencerKeys(x.refr))
	wl := []string{}
	for _, a := range snap.Write {
		wl = append(wl, model(a))
	}
	line["wl"] = wl
	line["nq"] = len(snap.Queued)
	inf := []int64{}
	if x.atGate != nil {
		for _, l := range x.atGate.Logs {
			inf = append(inf, l.ID.Int64())
		}
	}
	line["inf"] = inf
	line["np"] = x.unGated
}

func (x *world) spawn(p string) {
	ps := x.procs[p]
	ps.started = true
	cmd := x.cmd
	ctx, cancel := context.WithCancel(context.Background())
	ps.cancel = cancel
	x.s.Spawn(ctx, p, func(ctx context.Context) {
		ps.resp = call(ctx, cmd, p, ps.req)
	})
}

// granted reports whether the lock intent p is waiting with has been granted.
func (x *world) granted(p string) bool {
	var intent any
	got := false
	for _, e := range x.s.Events() {
		if e.Proc == p && e.Point == "lock.enqueued" {
			intent = e.KV["intent"]
			got = false
		}
		if e.Point == "lock.granted" && intent != nil && e.KV["intent"] == intent {
			got = true
		}
	}
	return got
}

// stepProc runs request p up to its next yield point. Returns the point
// reached ("finished" when the call returned, "" when p cannot move).
func (x *world) stepProc(p string) string {
	ps := x.procs[p]
	if ps == nil || ps.returned || ps.req.Gen != x.gen {
		x.nSkipped++
		return ""
	}
	if !ps.started {
		x.spawn(p)
	}
	point, parked, done := x.s.State(p)
	if done || !parked {
		x.nSkipped++
		return ""
	}
	switch point {
	case "lock.wait":
		if !x.granted(p) && !ps.cancelled {
			x.nSkipped++
			return ""
		}
	case "waitdone":
		if !ps.req.Dry && (ps.logID < 0 || !x.persisted(ps.logID)) {
			// the request must stay blocked until its log is durable. Once per request,
			// when its context has been cancelled, let it run anyway: a correct
			// implementation keeps waiting (the watchdog expires, nothing is concluded)
			if !(ps.cancelled || x.survived) || ps.triedBlocked {
				x.nSkipped++
				return ""
			}
			ps.triedBlocked = true
		}
	}
	rep := x.s.Step(p)
	return x.absorb(p, rep)
}

// absorb folds the report ending a step of p into the harness state.
func (x *world) absorb(p string, rep sched.Report) string {
	ps := x.procs[p]
	x.digest()
	if rep.Stuck {
		x.nStuck++
		return ""
	}
	at := rep.Point
	if rep.Returned {
		at = "finished"
		ps.returned = true
		if rep.Panic != nil {
			ps.resp = Resp{St: "panic", Txid: -1}
			x.emit(map[string]any{"ev": "panic", "p": p, "what": fmt.Sprint(rep.Panic)})
		}
		x.emit(map[string]any{"ev": "resp", "p": p, "st": ps.resp.St, "txid": ps.resp.Txid, "code": ps.resp.Code,
			"dry": ps.req.Dry, "ik": ps.req.Ik, "kind": ps.req.Kind})
	}
	x.awaitGate()
	return at
}

// cancelProc cancels the context of request p (its caller gave up).
func (x *world) cancelProc(p string) bool {
	ps := x.procs[p]
	if ps == nil || !ps.started || ps.returned || ps.cancel == nil || ps.cancelled || ps.req.Gen != x.gen {
		x.nSkipped++
		return false
	}
	ps.cancelled = true
	ps.cancel()
	return true
}

func (x *world) persist() bool {
	if x.atGate == nil {
		x.nSkipped++
		return false
	}
	x.decide(vstore.Write)
	x.awaitGate()
	return true
}

// decide releases the batch at the gate and waits until the store call took effect.
func (x *world) decide(d vstore.Decision) {
	want := len(x.store.Logs())
	if d != vstore.Fail {
		want += len(x.atGate.Logs)
	}
	x.atGate.Decide <- d
	x.atGate = nil
	deadline := time.Now().Add(3 * time.Second)
	for len(x.store.Logs()) < want && time.Now().Before(deadline) {
		time.Sleep(20 * time.Microsecond)
	}
}

// crash stops the current commander: through the store failure the code itself
// treats as fatal when a batch is in flight, by abandoning it otherwise.
func (x *world) crash(applied bool, forced *int) bool {
	if applied && x.atGate == nil {
		x.nSkipped++
		x.emit(map[string]any{"ev": "crash-skipped"})
		return false
	}
	flavour := -1
	if x.atGate != nil {
		flavour = flavourCounter % len(failureFlavours)
		flavourCounter++
		if forced != nil && *forced >= 0 {
			flavour = *forced % len(failureFlavours)
		}
		x.store.FailWith = failureFlavours[flavour]
		if applied {
			x.decide(vstore.WriteThenDie)
		} else {
			x.decide(vstore.Fail)
		}
		select {
		case <-x.runDone: // job.Runner panicked, as designed
		case <-time.After(1500 * time.Millisecond):
			// the commander survived a failing InsertLogs: no crash happened. The execution
			// goes on with the same commander; whatever it acknowledges now is judged.
			x.survived = true
			x.emit(map[string]any{"ev": "storefail-survived", "applied": applied, "flavour": flavour})
			return false
		}
	}
	x.s.Kill()
	for p, ps := range x.procs {
		if ps.req.Gen == x.gen && ps.started && !ps.returned {
			ps.returned = true
			ps.resp = Resp{St: "lost", Txid: -1}
			x.emit(map[string]any{"ev": "resp", "p": p, "st": "lost", "txid": int64(-1), "code": "", "dry": ps.req.Dry, "ik": ps.req.Ik, "kind": ps.req.Kind})
		}
	}
	x.emit(map[string]any{"ev": "crash", "applied": applied, "flavour": flavour})
	x.gen++
	return x.startGen() == nil
}

// settle waits (generously) for requests that are neither parked at a yield point
// nor finished: a step that outlived the scheduler's watchdog is still running, or
// blocked inside the implementation. Returns true when one of them reported.
func (x *world) settle() bool {
	progress := false
	for _, p := range sortedKeys(x.procs) {
		ps := x.procs[p]
		if ps.req.Gen != x.gen || !ps.started || ps.returned {
			continue
		}
		if _, parked, _ := x.s.State(p); parked {
			continue
		}
		// running, blocked, or finished with a report nobody consumed yet
		if rep, ok := x.s.TryAwait(p, 8*time.Second); ok {
			x.absorb(p, rep)
			progress = true
		}
	}
	return progress
}

// drain completes the execution after the schedule ended: persist whatever is
// at the gate, move every request that can move, until nothing changes.
func (x *world) drain() {
	for i := 0; i < 4; i++ {
		x.drainOnce()
		if !x.settle() {
			return
		}
	}
}

func (x *world) drainOnce() {
	for round := 0; round < 400; round++ {
		progress := false
		if x.atGate != nil {
			x.persist()
			progress = true
		}
		for _, p := range sortedKeys(x.procs) {
			ps := x.procs[p]
			if ps.req.Gen != x.gen || ps.returned {
				continue
			}
			if at := x.stepProc(p); at != "" {
				progress = true
			}
		}
		if !progress {
			return
		}
	}
}

// restartAndProbe stops the commander cleanly, builds a new one over the store and
// issues one transaction and one metadata write: whatever history came before,
// the entries written after a restart must continue the chain and the
// transaction ids. The probes appear in the trace as requests "probe1"/"probe2".
func (x *world) restartAndProbe() {
	if x.atGate != nil {
		return
	}
	for _, ps := range x.procs {
		if ps.req.Gen == x.gen && ps.started && !ps.returned {
			return // something is still in flight: not a quiescent end state
		}
	}
	x.s.Kill()
	cmd := x.cmd
	go func() { defer func() { _ = recover() }(); cmd.Close() }()
	x.emit(map[string]any{"ev": "restart"})
	x.gen += 100 // probes run in a generation of their own
	if x.startGen() != nil {
		return
	}
	probes := []Req{
		{Kind: "create", Postings: []Posting{{Src: "world", Dst: "B", Amt: 1}}, Mode: "lit", Target: -1, Gen: x.gen},
		{Kind: "setmeta", Tacct: "B", Mval: "v", Target: -1, Gen: x.gen},
	}
	for i, r := range probes {
		p := fmt.Sprintf("probe%d", i+1)
		x.reqs[p] = r
		x.procs[p] = &procState{req: r, logID: -1}
		for k := 0; k < 60; k++ {
			if x.atGate != nil {
				x.persist()
			}
			if x.procs[p].returned {
				break
			}
			x.stepProc(p)
		}
	}
}

// endLine reports what is left behind once nothing moves any more: locks and
// reservations still held, requests that never got an answer.
func (x *world) endLine() map[string]any {
	snap := command.VerifLockerSnapshot(x.locker)
	locks := len(snap.Write) + len(snap.Queued)
	for _, n := range snap.Read {
		locks += int(n)
	}
	unanswered := []string{}
	for _, p := range sortedKeys(x.procs) {
		ps := x.procs[p]
		if ps.req.Gen == x.gen && ps.started && !ps.returned {
			unanswered = append(unanswered, p)
		}
	}
	if x.atGate != nil {
		unanswered = append(unanswered, "batch-at-gate")
	}
	return map[string]any{"ev": "end", "locks": locks, "refs": len(command.VerifReferencerKeys(x.refr)), "unanswered": unanswered}
}

func (x *world) close() {
	x.mu.Lock()
	x.closed = true
	x.mu.Unlock()
	x.s.Kill()
	if x.atGate != nil {
		x.atGate.Decide <- vstore.Fail
		x.atGate = nil
	} else {
		cmd := x.cmd
		go func() { defer func() { _ = recover() }(); cmd.Close() }()
	}
}
