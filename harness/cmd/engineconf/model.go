package main

import (
	"context"
	"encoding/json"
	"errors"
	"fmt"
	"math/big"
	"os"
	"sort"
	"strings"
	"sync"

	"github.com/ThreeDotsLabs/watermill/message"
	ledger "github.com/formancehq/ledger/internal"
	"github.com/formancehq/ledger/internal/engine/command"
	"github.com/formancehq/ledger/internal/machine"
	"github.com/formancehq/ledger/verifharness/sched"
	"github.com/formancehq/stack/libs/go-libs/metadata"
)

// ---- requests of the specification (Engine.tla / EngineMC.tla) --------------

type Posting struct {
	Src string `json:"src"`
	Dst string `json:"dst"`
	Amt int64  `json:"amt"`
}

type Req struct {
	Kind     string    `json:"kind"`
	Postings []Posting `json:"postings"`
	Mode     string    `json:"mode"`
	Od       bool      `json:"od"`
	Ref      string    `json:"ref"`
	Ik       string    `json:"ik"`
	Dry      bool      `json:"dry"`
	Target   int64     `json:"target"`
	Tacct    string    `json:"tacct"`
	Mval     string    `json:"mval"`
	Gen      int       `json:"gen"`
}

const asset = "USD"

// model account "XE" is account x in the second asset
func real(a string) string {
	if len(a) == 2 && strings.HasSuffix(a, "E") {
		a = a[:1]
	}
	return strings.ToLower(a)
}
func assetOf(a string) string {
	if len(a) == 2 && strings.HasSuffix(a, "E") {
		return asset2
	}
	return asset
}
func model(a string) string {
	if a == "world" {
		return a
	}
	return strings.ToUpper(a)
}
func modelIn(a, as string) string {
	if a != "world" && as == asset2 {
		return model(a) + "E"
	}
	return model(a)
}

const asset2 = "EUR"

// script renders the postings of a create request as Numscript, naming the
// sources as literals, as variables, or through account metadata.
func script(r Req, p string) ledger.RunScript {
	var sb strings.Builder
	vars := map[string]string{}
	decl := []string{}
	aliasUse := []string{}
	srcExpr := func(i int, a string) string {
		if a == "world" && r.Mode != "wvar" {
			return "@world"
		}
		switch {
		case a == "$payer":
			return "$payer"
		case r.Mode == "alias":
			// the source is a variable, and an earlier variable that is not a source names the same account
			owner, name := fmt.Sprintf("o%d", i), fmt.Sprintf("s%d", i)
			decl = append(decl, fmt.Sprintf("\taccount $%s\n\taccount $%s\n", owner, name))
			vars[owner], vars[name] = real(a), real(a)
			aliasUse = append(aliasUse, fmt.Sprintf("set_tx_meta(\"owner%d\", $%s)\n", i, owner))
			return "$" + name
		case r.Mode == "var" || r.Mode == "wvar": // "wvar": every source is a variable, @world included, so that
			// requests drawing on different accounts share one script text (and one compiled program)
			name := fmt.Sprintf("s%d", i)
			decl = append(decl, fmt.Sprintf("\taccount $%s\n", name))
			vars[name] = real(a)
			return "$" + name
		default:
			return "@" + real(a)
		}
	}
	body := strings.Builder{}
	for i, po := range r.Postings {
		src := srcExpr(i, po.Src)
		if r.Od && po.Src != "world" {
			src += " allowing unbounded overdraft"
		}
		if po.Src != "world" {
			switch r.Mode {
			case "allot": // the account is named only inside a portioned source
				src = fmt.Sprintf("{\n\t\t1/2 from %s\n\t\tremaining from %s\n\t}", src, src)
			case "max": // ... only under a cap
				src = fmt.Sprintf("max [%s %d] from %s", asset, po.Amt, src)
			case "seq": // ... only inside an ordered list
				src = fmt.Sprintf("{\n\t\t%s\n\t}", src)
			}
		}
		as := assetOf(po.Dst)
		if po.Src != "world" {
			as = assetOf(po.Src)
		}
		fmt.Fprintf(&body, "send [%s %d] (\n\tsource = %s\n\tdestination = @%s\n)\n", as, po.Amt, src, real(po.Dst))
	}
	if r.Mode == "meta" {
		decl = append(decl, "\taccount $payer = meta(@m, \"payer\")\n")
	}
	if r.Mode == "bal" && len(r.Postings) > 0 {
		// the amount is the balance of the source, read through a balance() variable
		decl = append(decl, fmt.Sprintf("\tmonetary $b = balance(@%s, %s)\n", real(r.Postings[0].Src), asset))
		body.Reset()
		fmt.Fprintf(&body, "send $b (\n\tsource = @%s\n\tdestination = @%s\n)\n", real(r.Postings[0].Src), real(r.Postings[0].Dst))
	}
	if len(decl) > 0 {
		sb.WriteString("vars {\n" + strings.Join(decl, "") + "}\n")
	}
	sb.WriteString(strings.Join(aliasUse, ""))
	if r.Mode == "var" || r.Mode == "alias" {
		// a statement with no effect on the ledger that the engine must still serve
		sb.WriteString("print [USD 1]\n")
	}
	sb.WriteString(body.String())
	if r.Kind == "create" && r.Mval == "am" {
		// one account of the postings and one the transaction does not touch
		sb.WriteString("set_account_meta(@c, \"tag\", \"v\")\n")
		sb.WriteString("set_account_meta(@auditor, \"tag\", \"w\")\n")
	}
	return ledger.RunScript{
		Script:    ledger.Script{Plain: sb.String(), Vars: vars},
		Metadata:  metadata.Metadata{"req": p},
		Reference: r.Ref,
	}
}

// ---- responses ------------------------------------------------------------

type Resp struct {
	St   string `json:"st"` // ok | err | panic | lost
	Txid int64  `json:"txid"`
	Code string `json:"code"`
}

func classify(err error) string {
	switch {
	case err == nil:
		return ""
	case command.IsInvalidTransactionError(err, command.ErrInvalidTransactionCodeConflict):
		return "conflict"
	case command.IsRevertError(err, command.ErrRevertTransactionCodeOccurring):
		return "revert-occurring"
	case command.IsRevertError(err, command.ErrRevertTransactionCodeAlreadyReverted):
		return "already-reverted"
	case command.IsRevertError(err, command.ErrRevertTransactionCodeNotFound):
		return "not-found"
	case command.IsSaveMetaError(err, command.ErrSaveMetaCodeTransactionNotFound):
		return "not-found"
	case command.IsDeleteMetaError(err, command.ErrSaveMetaCodeTransactionNotFound):
		return "not-found"
	case machine.IsInsufficientFundError(err):
		return "insufficient"
	case errors.Is(err, &machine.ErrNegativeAmount{}):
		return "negative-amount"
	case errors.Is(err, &machine.ErrMissingMetadata{}):
		return "missing-metadata"
	case strings.Contains(err.Error(), "verif: store read failed"):
		return "read-failed"
	case strings.Contains(err.Error(), "already taken"):
		return "ik-taken"
	case strings.Contains(err.Error(), "locking accounts"):
		return "lock-cancelled"
	case errors.Is(err, context.Canceled):
		return "cancelled"
	}
	return "other:" + err.Error()
}

// call issues request r on the commander and classifies the outcome.
func call(ctx context.Context, c *command.Commander, p string, r Req) (resp Resp) {
	defer func() {
		if e := recover(); e != nil {
			// the text of the panic is kept out of the response record (the model has no such thing); stderr keeps it
			fmt.Fprintf(os.Stderr, "request %s panicked: %v\n", p, e)
			resp = Resp{St: "panic", Txid: -1}
		}
	}()
	params := command.Parameters{DryRun: r.Dry, IdempotencyKey: r.Ik}
	var err error
	txid := int64(-1)
	switch r.Kind {
	case "create":
		var tx *ledger.Transaction
		tx, err = c.CreateTransaction(ctx, params, script(r, p))
		if err == nil {
			txid = tx.ID.Int64()
		}
	case "revert":
		var tx *ledger.Transaction
		tx, err = c.RevertTransaction(ctx, params, big.NewInt(r.Target), r.Od)
		if err == nil {
			txid = tx.ID.Int64()
		}
	case "setmeta":
		if r.Tacct != "" {
			key := "k"
			if r.Tacct == "M" {
				key = "payer"
			}
			err = c.SaveMeta(ctx, params, ledger.MetaTargetTypeAccount, real(r.Tacct), metadata.Metadata{key: real(r.Mval), "req": p})
		} else {
			err = c.SaveMeta(ctx, params, ledger.MetaTargetTypeTransaction, big.NewInt(r.Target), metadata.Metadata{"k": r.Mval, "req": p})
		}
	case "delmeta":
		if r.Tacct != "" {
			key := "k"
			if r.Tacct == "M" {
				key = "payer"
			}
			err = c.DeleteMetadata(ctx, params, ledger.MetaTargetTypeAccount, real(r.Tacct), key)
		} else {
			err = c.DeleteMetadata(ctx, params, ledger.MetaTargetTypeTransaction, big.NewInt(r.Target), "k")
		}
	default:
		panic("unknown request kind " + r.Kind)
	}
	if err != nil {
		return Resp{St: "err", Txid: -1, Code: classify(err)}
	}
	return Resp{St: "ok", Txid: txid}
}

// ---- abstraction of real logs and events -----------------------------------

func absPostings(ps ledger.Postings) []Posting {
	out := []Posting{}
	for _, p := range ps {
		out = append(out, Posting{Src: modelIn(p.Source, p.Asset), Dst: modelIn(p.Destination, p.Asset), Amt: p.Amount.Int64()})
	}
	return out
}

func targetOf(tt string, id any) (target int64, tacct string) {
	target = -1
	if strings.EqualFold(tt, ledger.MetaTargetTypeAccount) {
		return -1, model(fmt.Sprint(id))
	}
	switch v := id.(type) {
	case *big.Int:
		target = v.Int64()
	case uint64:
		target = int64(v)
	case float64:
		target = int64(v)
	case string:
		fmt.Sscan(v, &target)
	default:
		fmt.Sscan(fmt.Sprint(id), &target)
	}
	return target, ""
}

// hashOK recomputes the hash of l from the persisted predecessor, the way
// Log.ChainLog computed it (id 0, no hash yet).
func hashOK(prev, l *ledger.ChainedLog) bool {
	cp := *l
	cp.ID = big.NewInt(0)
	cp.Hash = nil
	cp.ComputeHash(prev)
	return string(cp.Hash) == string(l.Hash)
}

func absLog(prev, l *ledger.ChainedLog, by string, od bool) map[string]any {
	m := map[string]any{"id": l.ID.Int64(), "by": by, "txid": int64(-1), "target": int64(-1), "tacct": "", "mval": "",
		"postings": []Posting{}, "ref": "", "ik": l.IdempotencyKey, "od": od, "hashOk": hashOK(prev, l)}
	switch p := l.Data.(type) {
	case ledger.NewTransactionLogPayload:
		m["kind"] = "tx"
		m["txid"] = p.Transaction.ID.Int64()
		m["postings"] = absPostings(p.Transaction.Postings)
		m["ref"] = p.Transaction.Reference
		m["mval"] = absAccountMetadata(p.AccountMetadata)
	case ledger.RevertedTransactionLogPayload:
		m["kind"] = "rev"
		m["txid"] = p.RevertTransaction.ID.Int64()
		m["target"] = p.RevertedTransactionID.Int64()
		m["postings"] = absPostings(p.RevertTransaction.Postings)
	case ledger.SetMetadataLogPayload:
		m["kind"] = "set"
		m["target"], m["tacct"] = targetOf(p.TargetType, p.TargetID)
		if v, ok := p.Metadata["payer"]; ok {
			m["mval"] = model(v)
		} else {
			m["mval"] = p.Metadata["k"]
		}
	case ledger.DeleteMetadataLogPayload:
		m["kind"] = "del"
		m["target"], m["tacct"] = targetOf(p.TargetType, p.TargetID)
	default:
		m["kind"] = "unknown"
	}
	return m
}

// absAccountMetadata: "" for none, "am" for exactly what the harness' script writes
// (@c tag=v, @auditor tag=w), otherwise the content spelled out (so that an event and
// its log entry that differ are unequal).
func absAccountMetadata(am map[string]metadata.Metadata) string {
	if len(am) == 0 {
		return ""
	}
	if len(am) == 2 && len(am["c"]) == 1 && am["c"]["tag"] == "v" && len(am["auditor"]) == 1 && am["auditor"]["tag"] == "w" {
		return "am"
	}
	b, _ := json.Marshal(am)
	return "am:" + string(b)
}

// recorder is the message.Publisher given to the real bus.ledgerMonitor.
type recorder struct {
	mu     sync.Mutex
	events []map[string]any
	onPub  func(map[string]any)
}

func (r *recorder) Publish(topic string, messages ...*message.Message) error {
	for _, msg := range messages {
		var ev struct {
			Type    string          `json:"type"`
			Payload json.RawMessage `json:"payload"`
		}
		_ = json.Unmarshal(msg.Payload, &ev)
		out := map[string]any{"ev": "publish", "by": sched.ProcOf(msg.Context()), "txid": int64(-1), "target": int64(-1),
			"tacct": "", "postings": []Posting{}, "topic": topic, "mval": ""}
		switch ev.Type {
		case "COMMITTED_TRANSACTIONS":
			var p struct {
				Transactions    []ledger.Transaction         `json:"transactions"`
				AccountMetadata map[string]metadata.Metadata `json:"accountMetadata"`
			}
			_ = json.Unmarshal(ev.Payload, &p)
			out["type"] = "committed"
			out["mval"] = absAccountMetadata(p.AccountMetadata)
			if len(p.Transactions) > 0 {
				out["txid"] = p.Transactions[0].ID.Int64()
				out["postings"] = absPostings(p.Transactions[0].Postings)
			}
		case "REVERTED_TRANSACTION":
			var p struct {
				Reverted ledger.Transaction `json:"revertedTransaction"`
				Revert   ledger.Transaction `json:"revertTransaction"`
			}
			_ = json.Unmarshal(ev.Payload, &p)
			out["type"] = "reverted"
			if p.Revert.ID != nil {
				out["txid"] = p.Revert.ID.Int64()
			}
			if p.Reverted.ID != nil {
				out["target"] = p.Reverted.ID.Int64()
			}
		case "SAVED_METADATA":
			var p struct {
				TargetType string `json:"targetType"`
				TargetID   any    `json:"targetId"`
			}
			_ = json.Unmarshal(ev.Payload, &p)
			out["type"] = "saved"
			out["target"], out["tacct"] = targetOf(p.TargetType, p.TargetID)
		case "DELETED_METADATA":
			var p struct {
				TargetType string `json:"targetType"`
				TargetID   any    `json:"targetId"`
			}
			_ = json.Unmarshal(ev.Payload, &p)
			out["type"] = "deleted"
			out["target"], out["tacct"] = targetOf(p.TargetType, p.TargetID)
		default:
			out["type"] = "unknown:" + ev.Type
		}
		r.mu.Lock()
		r.events = append(r.events, out)
		cb := r.onPub
		r.mu.Unlock()
		if cb != nil {
			cb(out)
		}
	}
	return nil
}

func (r *recorder) Close() error { return nil }

func sortedKeys[V any](m map[string]V) []string {
	out := []string{}
	for k := range m {
		out = append(out, k)
	}
	sort.Strings(out)
	return out
}
