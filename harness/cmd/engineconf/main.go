// engineconf binds spec/Engine.tla to the real command.Commander
// (C02 C05 C06 C07 C10 C11 C14 C16).
//
// Replay (spec -> code): each behaviour emitted by TLC (EngineGen.tla) - a
// schedule of request steps, persistence decisions and crashes - is executed
// on a real Commander (real DefaultLocker, Referencer, Compiler, Batcher /
// job.Runner, bus monitor) over the harness store; requests run in goroutines
// parked at the verif yield points, InsertLogs is gated. After every step the
// implementation's state is projected and written next to what the
// specification expected ("step" lines, judged by EngineTrace.tla); the
// observable history - durable logs, responses, published events - is written
// as "persist" / "resp" / "publish" lines, judged by EngineObs.tla.
//
// Free-running (code -> spec): the same request mixes under the Go scheduler
// with random persistence latency; only the observable history is recorded.
package main

import (
	"bytes"
	"context"
	"encoding/json"
	"flag"
	"fmt"
	"io"
	"math/rand"
	"os"
	"path/filepath"
	"sync"
	"time"

	"github.com/formancehq/ledger/verifharness/sched"
	"github.com/formancehq/ledger/verifharness/tlaio"
	"github.com/sirupsen/logrus"
)

func quietLogger() *logrus.Logger {
	l := logrus.New()
	l.SetOutput(io.Discard)
	return l
}

type header struct {
	Req    map[string]Req `json:"req"`
	Design map[string]any `json:"design"`
}

type stats struct {
	Behaviours int            `json:"behaviours"`
	Distinct   int            `json:"distinct_behaviours"`
	Steps      int            `json:"steps"`
	Skipped    int            `json:"skipped_steps"`
	Stuck      int            `json:"stuck"`
	Diverged   int            `json:"diverged_behaviours"`
	Points     map[string]int `json:"points_reached"`
	Crashes    int            `json:"crashes"`
	Persists   int            `json:"persists"`
	FreeRuns   int            `json:"free_runs"`
	FreeReqs   int            `json:"free_requests"`
	Samples    []any          `json:"samples"`
}

func readBehaviour(path string) (header, []Step, error) {
	var h header
	f, err := os.ReadFile(path)
	if err != nil {
		return h, nil, err
	}
	var steps []Step
	first := true
	dec := json.NewDecoder(bytes.NewReader(f))
	for dec.More() {
		var raw json.RawMessage
		if err := dec.Decode(&raw); err != nil {
			return h, nil, err
		}
		if first {
			first = false
			if err := json.Unmarshal(raw, &h); err != nil {
				return h, nil, err
			}
			continue
		}
		var s Step
		if err := json.Unmarshal(raw, &s); err != nil {
			return h, nil, err
		}
		steps = append(steps, s)
	}
	return h, steps, nil
}

func replay(path string, w *tlaio.Writer, st *stats) error {
	h, steps, err := readBehaviour(path)
	if err != nil {
		return err
	}
	st.Behaviours++
	seedTx := true
	if v, ok := h.Design["SeedTx"].(bool); ok {
		seedTx = v
	}
	x := newWorld(w, h.Req, true, seedTx)
	x.emit(map[string]any{"ev": "reset", "req": h.Req, "design": h.Design, "src": filepath.Base(path)})
	if err := x.startGen(); err != nil {
		return err
	}
	diverged := false
	for _, sp := range steps {
		st.Steps++
		line := map[string]any{"ev": "step", "a": sp.A, "p": sp.P}
		switch sp.A {
		case "step", "readfail":
			if sp.A == "readfail" {
				// the store fails the next lookup of this request's idempotency key
				x.failLookup.Store(sp.P, true)
			}
			at := x.stepProc(sp.P)
			x.failLookup.Delete(sp.P)
			if at == "" {
				diverged = true
				continue
			}
			st.Points[at]++
			ps := x.procs[sp.P]
			line["at"] = at
			if at == "finished" {
				line["rs"], line["code"], line["txid"] = ps.resp.St, ps.resp.Code, ps.resp.Txid
			} else {
				line["rs"], line["code"], line["txid"] = "none", "", int64(-1)
			}
			if at != sp.At {
				diverged = true
			}
		case "cancel":
			if !x.cancelProc(sp.P) {
				diverged = true
				continue
			}
		case "persist":
			if !x.persist() {
				diverged = true
				continue
			}
			st.Persists++
		case "crash":
			line["applied"] = sp.Applied
			if !x.crash(sp.Applied, sp.Flavour) {
				diverged = true
				continue
			}
			st.Crashes++
		}
		x.obs(line)
		x.emit(line)
	}
	x.drain()
	x.emit(x.endLine())
	x.restartAndProbe()
	x.close()
	st.Skipped += x.nSkipped
	st.Stuck += x.nStuck
	if diverged {
		st.Diverged++
	}
	return nil
}

// freeRun issues the requests of one population concurrently under the Go
// scheduler, with jitter at the yield points and random persistence latency.
func freeRun(w *tlaio.Writer, st *stats, reqs map[string]Req, seed int64) {
	rng := rand.New(rand.NewSource(seed))
	x := newWorld(w, reqs, false, true)
	x.free = true
	x.emit(map[string]any{"ev": "reset", "req": reqs, "design": map[string]any{}, "src": fmt.Sprintf("free-%d", seed)})
	var lat sync.Mutex
	x.store.ReadDelay = func() {
		lat.Lock()
		d := time.Duration(rng.Intn(40)) * time.Microsecond
		lat.Unlock()
		time.Sleep(d)
	}
	if err := x.startGen(); err != nil {
		return
	}
	x.s.Jitter = func(string) {
		lat.Lock()
		d := time.Duration(rng.Intn(60)) * time.Microsecond
		lat.Unlock()
		time.Sleep(d)
	}
	x.store.InsertDelay = func() {
		lat.Lock()
		d := time.Duration(rng.Intn(300)) * time.Microsecond
		lat.Unlock()
		time.Sleep(d)
	}
	var wg sync.WaitGroup
	for _, p := range sortedKeys(reqs) {
		p := p
		r := reqs[p]
		if r.Gen != 0 {
			continue
		}
		st.FreeReqs++
		wg.Add(1)
		go func() {
			defer wg.Done()
			resp := call(sched.WithProc(context.Background(), p), x.cmd, p, r)
			x.emit(map[string]any{"ev": "resp", "p": p, "st": resp.St, "txid": resp.Txid, "code": resp.Code, "dry": r.Dry, "ik": r.Ik, "kind": r.Kind})
		}()
	}
	done := make(chan struct{})
	go func() { wg.Wait(); close(done) }()
	select {
	case <-done:
	case <-time.After(10 * time.Second):
		x.emit(map[string]any{"ev": "hung"})
	}
	time.Sleep(2 * time.Millisecond)
	x.emit(x.endLine())
	x.close()
	st.FreeRuns++
}

func main() {
	in := flag.String("in", "", "directory of TLC behaviours (*.ndjson)")
	out := flag.String("out", "", "output file (trace, ndjson)")
	statsOut := flag.String("stats", "", "stats file (json)")
	shard := flag.Int("shard", 0, "this shard")
	shards := flag.Int("shards", 1, "number of shards")
	free := flag.Int("free", 0, "free-running executions (per shard)")
	seed := flag.Int64("seed", 1, "seed")
	flag.Parse()
	st := &stats{Points: map[string]int{}}
	w, err := tlaio.NewWriter(*out)
	if err != nil {
		fmt.Fprintln(os.Stderr, err)
		os.Exit(2)
	}
	seen := map[string]bool{}
	var pops []map[string]Req
	if *in != "" {
		files := tlaio.ListFiles(*in, "*.ndjson")
		for i, f := range files {
			b, _ := os.ReadFile(f)
			if seen[string(b)] {
				continue
			}
			seen[string(b)] = true
			if i%*shards != *shard {
				continue
			}
			if len(st.Samples) < 2 {
				l, _ := tlaio.ReadNDJSON(f)
				if len(l) > 12 {
					l = l[:12]
				}
				st.Samples = append(st.Samples, l)
			}
			if err := replay(f, w, st); err != nil {
				fmt.Fprintln(os.Stderr, "replay", f, err)
				os.Exit(2)
			}
			if h, _, err := readBehaviour(f); err == nil && len(pops) < 64 {
				pops = append(pops, h.Req)
			}
		}
	}
	st.Distinct = len(seen)
	for i := 0; i < *free && len(pops) > 0; i++ {
		freeRun(w, st, pops[i%len(pops)], *seed*7919+int64(i)*31+int64(*shard))
	}
	if err := w.Close(); err != nil {
		fmt.Fprintln(os.Stderr, "HARNESS-ERROR closing trace:", err)
		os.Exit(2)
	}
	if *statsOut != "" {
		if err := tlaio.WriteJSON(*statsOut, st); err != nil {
			fmt.Fprintln(os.Stderr, "HARNESS-ERROR writing stats:", err)
			os.Exit(2)
		}
	}
}
