package main

import (
	"bufio"
	"context"
	"encoding/json"
	"fmt"
	"math/rand"
	"os"
	"regexp"
	"strings"
	"sync"

	"github.com/formancehq/ledger/internal/storage/ledgerstore"
	"github.com/formancehq/ledger/verifharness/fakepg"
	"github.com/formancehq/stack/libs/go-libs/query"
)

// C20: every value enumerated by SqlShape.tla is put into every filter slot of the
// list / count / aggregate queries of the real Store; the SQL text reaching the
// driver is recorded for the value and for its harmless twin.

type slot struct {
	Ep   string // transactions | accounts | logs | balances
	Name string
	Mk   func(v string) query.Builder
}

// every key each endpoint's filter context knows x every comparison operator x both places a client
// string can sit (the value; the text between the brackets of metadata[...] / balance[...]), plus
// composites. Combinations the store refuses count as rejected requests.
var slots = buildSlots()

func opBuilder(op, key string, v any) query.Builder {
	switch op {
	case "$lt":
		return query.Lt(key, v)
	case "$lte":
		return query.Lte(key, v)
	case "$gt":
		return query.Gt(key, v)
	case "$gte":
		return query.Gte(key, v)
	}
	return query.Match(key, v)
}

func buildSlots() []slot {
	var out []slot
	ops := []string{"$match", "$lt", "$lte", "$gt", "$gte"}
	valueKeys := map[string][]string{
		"accounts":     {"address", "metadata[k]", "balance", "balance[USD]"},
		"transactions": {"account", "source", "destination", "reference", "timestamp", "metadata[k]"},
		"logs":         {"date", "id"},
		"balances":     {"address", "metadata[k]"},
	}
	bracketKeys := map[string][]string{
		"accounts":     {"metadata", "balance"},
		"transactions": {"metadata"},
		"balances":     {"metadata"},
	}
	for _, ep := range []string{"accounts", "transactions", "logs", "balances"} {
		for _, key := range valueKeys[ep] {
			for _, op := range ops {
				key, op := key, op
				out = append(out, slot{ep, key + "-value-" + op, func(v string) query.Builder { return opBuilder(op, key, v) }})
			}
			// the client string inside a JSON array / object given as the value (a body can carry any JSON there)
			key := key
			out = append(out,
				slot{ep, key + "-value-in-list", func(v string) query.Builder { return opBuilder("$match", key, []any{v}) }},
				slot{ep, key + "-value-in-mixed-list", func(v string) query.Builder { return opBuilder("$match", key, []any{float64(3), v}) }},
				slot{ep, key + "-value-in-object", func(v string) query.Builder { return opBuilder("$match", key, map[string]any{"x": v}) }})
		}
		for _, key := range bracketKeys[ep] {
			for _, op := range ops {
				key, op := key, op
				var operand any = "x"
				if key == "balance" {
					operand = 100
				}
				out = append(out, slot{ep, key + "-key-" + op, func(v string) query.Builder { return opBuilder(op, key+"["+v+"]", operand) }})
			}
		}
	}
	// the key itself: what follows a key the endpoint knows, and a key made of the client string alone
	wholeKeys := map[string][]string{
		"accounts":     {"address", "metadata", "balance", ""},
		"transactions": {"reference", "timestamp", "id", "account", "metadata", ""},
		"logs":         {"date", "id", ""},
		"balances":     {"address", "metadata", ""},
	}
	for _, ep := range []string{"accounts", "transactions", "logs", "balances"} {
		for _, prefix := range wholeKeys[ep] {
			for _, op := range []string{"$match", "$lt"} {
				prefix, op := prefix, op
				out = append(out, slot{ep, "whole-key-after-" + prefix + "-" + op, func(v string) query.Builder { return opBuilder(op, prefix+v, "x") }})
			}
		}
	}
	out = append(out,
		slot{"accounts", "address-in-and", func(v string) query.Builder {
			return query.And(query.Match("address", v), query.Match("metadata[k]", "x"))
		}},
		slot{"accounts", "address-in-not", func(v string) query.Builder { return query.Not(query.Match("address", v)) }},
		slot{"transactions", "account-in-or", func(v string) query.Builder {
			return query.Or(query.Match("account", v), query.Match("reference", v))
		}},
	)
	return out
}

// statements the real store sends for this slot and value (list + count / aggregate), or rejected
func record(s slot, v string, withPit bool) (sqls []string, rejected bool) {
	srv := &fakepg.Server{IDs: []int64{1, 2, 3}, Answer: answer}
	db := fakepg.Open(srv)
	defer db.Close()
	store := ledgerstore.NewStoreOverDB(db, "bucket", "l1")
	ctx := context.Background()
	qb := s.Mk(v)
	p := &pit
	if !withPit {
		p = nil
	}
	defer func() {
		if e := recover(); e != nil {
			sqls, rejected = append(srv.Take(), fmt.Sprintf("PANIC %v", e)), false
		}
	}()
	var err1, err2 error
	switch s.Ep {
	case "transactions":
		opts := ledgerstore.NewPaginatedQueryOptions(ledgerstore.PITFilterWithVolumes{PITFilter: ledgerstore.PITFilter{PIT: p}}).WithQueryBuilder(qb).WithPageSize(2)
		_, err1 = store.GetTransactions(ctx, ledgerstore.NewGetTransactionsQuery(opts))
		_, err2 = store.CountTransactions(ctx, ledgerstore.NewGetTransactionsQuery(opts))
	case "accounts":
		opts := ledgerstore.NewPaginatedQueryOptions(ledgerstore.PITFilterWithVolumes{PITFilter: ledgerstore.PITFilter{PIT: p}}).WithQueryBuilder(qb).WithPageSize(2)
		_, err1 = store.GetAccountsWithVolumes(ctx, ledgerstore.NewGetAccountsQuery(opts))
		_, err2 = store.CountAccounts(ctx, ledgerstore.NewGetAccountsQuery(opts))
	case "logs":
		opts := ledgerstore.NewPaginatedQueryOptions[any](nil).WithQueryBuilder(qb).WithPageSize(2)
		_, err1 = store.GetLogs(ctx, ledgerstore.NewGetLogsQuery(opts))
	case "balances":
		opts := ledgerstore.NewPaginatedQueryOptions(ledgerstore.PITFilter{PIT: p}).WithQueryBuilder(qb)
		_, err1 = store.GetAggregatedBalances(ctx, ledgerstore.NewGetAggregatedBalancesQuery(opts))
	}
	sqls = srv.Take()
	// a query the store refuses before anything reaches the driver is a rejected request
	if (err1 != nil || err2 != nil) && len(sqls) == 0 {
		return nil, true
	}
	return sqls, false
}

// ---- Go transcription of SqlShape.tla's automaton (cross-checked against TLC on a sample) ----

func isTag(ch rune) bool {
	return (ch >= 'a' && ch <= 'z') || (ch >= 'A' && ch <= 'Z') || ch == '_' || (ch >= '0' && ch <= '9')
}

func skeleton(sql string) []int {
	s := []rune(sql)
	out := []int{}
	st := "code"
	depth := 0
	var tag, cur []rune
	at := func(i int) rune {
		if i >= 0 && i < len(s) {
			return s[i]
		}
		return -1
	}
	for i := 0; i < len(s); {
		ch, nx, prev := s[i], at(i+1), at(i-1)
		switch st {
		case "code":
			switch {
			case ch == '\'':
				if (prev == 'E' || prev == 'e') && (i < 2 || !isTag(s[i-2])) {
					st = "esq"
				} else {
					st = "sq"
				}
				out = append(out, -10)
				i++
			case ch == '"':
				st = "dq"
				out = append(out, -11)
				i++
			case ch == '-' && nx == '-':
				st = "lc"
				out = append(out, -12)
				i += 2
			case ch == '/' && nx == '*':
				st, depth = "bc", 1
				out = append(out, -13)
				i += 2
			case ch == '$' && !isTag(prev):
				st, tag = "dolopen", nil
				i++
			default:
				out = append(out, int(ch))
				i++
			}
		case "dolopen":
			switch {
			case ch == '$':
				st, cur = "dol", nil
				out = append(out, -14)
				i++
			case isTag(ch) && !(len(tag) == 0 && ch >= '0' && ch <= '9'):
				tag = append(tag, ch)
				i++
			default:
				for _, t := range tag {
					out = append(out, int(t))
				}
				out = append(out, int('$'))
				st, tag = "code", nil
			}
		case "dol":
			switch {
			case ch == '$':
				if string(cur) == "$"+string(tag) {
					st = "code"
					out = append(out, -15)
				} else {
					cur = []rune{'$'}
				}
				i++
			case len(cur) > 0:
				cur = append(cur, ch)
				i++
			default:
				i++
			}
		case "sq":
			if ch == '\'' {
				if nx == '\'' {
					i += 2
				} else {
					st = "code"
					out = append(out, -20)
					i++
				}
			} else {
				i++
			}
		case "esq":
			switch {
			case ch == '\\':
				i += 2
			case ch == '\'':
				if nx == '\'' {
					i += 2
				} else {
					st = "code"
					out = append(out, -20)
					i++
				}
			default:
				i++
			}
		case "dq":
			if ch == '"' {
				if nx == '"' {
					i += 2
				} else {
					st = "code"
					out = append(out, -21)
					i++
				}
			} else {
				i++
			}
		case "lc":
			if ch == '\n' {
				st = "code"
				out = append(out, -22)
			}
			i++
		case "bc":
			switch {
			case ch == '*' && nx == '/':
				if depth == 1 {
					st = "code"
					out = append(out, -23)
				} else {
					depth--
				}
				i += 2
			case ch == '/' && nx == '*':
				depth++
				i += 2
			default:
				i++
			}
		}
	}
	if st == "code" {
		out = append(out, -1)
	} else {
		out = append(out, -2)
	}
	return out
}

func sameInts(a, b []int) bool {
	if len(a) != len(b) {
		return false
	}
	for i := range a {
		if a[i] != b[i] {
			return false
		}
	}
	return true
}

func codepoints(s string) []int {
	out := []int{}
	for _, r := range s {
		out = append(out, int(r))
	}
	return out
}

var reDollarTag = regexp.MustCompile(`\$[A-Za-z_][A-Za-z_0-9]*\$|\$\$`)

func runeString(cps []int) string {
	var sb strings.Builder
	for _, c := range cps {
		sb.WriteRune(rune(c))
	}
	return sb.String()
}

func modeSQLShape(in, out, stats string, sampleN int, seed int64) {
	f, err := os.Open(in)
	if err != nil {
		fmt.Fprintln(os.Stderr, err)
		os.Exit(2)
	}
	of, _ := os.Create(out)
	w := bufio.NewWriter(of)
	sf, _ := os.Create(out + ".sample")
	sw := bufio.NewWriter(sf)
	sc := bufio.NewScanner(f)
	sc.Buffer(make([]byte, 1<<20), 1<<24)
	rng := rand.New(rand.NewSource(seed))
	n, rejected, changed := 0, 0, 0
	bySlot := map[string]int{}
	var samples []any
	type vcase struct {
		V []int `json:"v"`
		H []int `json:"h"`
	}
	var values []vcase
	for sc.Scan() {
		var c vcase
		if err := json.Unmarshal(sc.Bytes(), &c); err != nil {
			os.Exit(2)
		}
		values = append(values, c)
	}
	total := len(values) * len(slots)
	type job struct {
		c       vcase
		s       slot
		n       int
		sampled bool
	}
	type result struct {
		line   map[string]any
		sample map[string]any
		rej    bool
		same   bool
		sv     []string
	}
	var jobs []job
	for _, c := range values {
		for _, s := range slots {
			n++
			jobs = append(jobs, job{c, s, n, rng.Intn(total) < sampleN})
		}
	}
	// second pass: if the statements the store sends quote anything with dollar tags, the tags they use
	// become values too (a first pass over a few harmless values finds them)
	tags := map[string]bool{}
	for _, s := range slots {
		sv, _ := record(s, "aa", true)
		for _, q := range sv {
			for _, m := range reDollarTag.FindAllString(q, -1) {
				tags[m] = true
			}
		}
	}
	for tag := range tags {
		for _, payload := range []string{tag, "x" + tag + " or 1=1 --", tag + tag} {
			v := []int{}
			h := []int{}
			for _, r := range payload {
				v = append(v, int(r))
				h = append(h, 97)
			}
			for _, s := range slots {
				n++
				jobs = append(jobs, job{vcase{V: v, H: h}, s, n, false})
			}
		}
	}
	results := make([]result, len(jobs))
	var wg sync.WaitGroup
	sem := make(chan struct{}, 14)
	for i := range jobs {
		wg.Add(1)
		sem <- struct{}{}
		go func(i int) {
			defer wg.Done()
			defer func() { <-sem }()
			j := jobs[i]
			v, h := runeString(j.c.V), runeString(j.c.H)
			withPit := j.n%3 == 0
			sv, rej := record(j.s, v, withPit)
			sh, rejH := record(j.s, h, withPit)
			line := map[string]any{"ep": j.s.Ep, "slot": j.s.Name, "value": v, "harmless": h, "rejected": rej, "harmlessRejected": rejH}
			r := result{line: line, rej: rej, same: true, sv: sv}
			if !rej {
				a, b := strings.Join(sv, "\n;;\n"), strings.Join(sh, "\n;;\n")
				r.same = sameInts(skeleton(a), skeleton(b))
				if !r.same {
					line["sql"], line["sqlHarmless"] = a, b
				}
				// a seeded sample (and every flagged line) is also judged by TLC on the recorded characters
				if (j.sampled || !r.same) && len(sv) > 0 && len(sh) > 0 {
					// TLC runs the automaton over every character: give it the list statement only
					// (the count statement wraps the same text), unless the difference is elsewhere
					a1, b1 := sv[0], sh[0]
					if !r.same && sameInts(skeleton(a1), skeleton(b1)) {
						a1, b1 = a, b
					}
					r.sample = map[string]any{"ep": j.s.Ep, "slot": j.s.Name, "value": j.c.V, "sql": codepoints(a1), "base": codepoints(b1), "goSame": sameInts(skeleton(a1), skeleton(b1))}
				}
			}
			line["sameStructure"] = r.same
			results[i] = r
		}(i)
	}
	wg.Wait()
	for i, r := range results {
		j := jobs[i]
		if r.rej {
			rejected++
		}
		if !r.same {
			changed++
		}
		if r.sample != nil && (jobs[i].sampled || changed <= 40) {
			bts, _ := json.Marshal(r.sample)
			sw.Write(bts)
			sw.WriteByte('\n')
		}
		bySlot[j.s.Ep+"/"+j.s.Name]++
		if len(samples) < 2 && strings.Contains(r.line["value"].(string), "'") && j.s.Name == "reference-value-$match" {
			samples = append(samples, map[string]any{"slot": j.s.Ep + "/" + j.s.Name, "value": r.line["value"], "sql": strings.Join(r.sv, " ;; ")})
		}
		bts, _ := json.Marshal(r.line)
		w.Write(bts)
		w.WriteByte('\n')
	}
	w.Flush()
	of.Close()
	sw.Flush()
	sf.Close()
	st, _ := json.MarshalIndent(map[string]any{"cases": n, "values": len(values), "slots": len(slots), "rejected": rejected, "structure_changed": changed, "by_slot": bySlot, "samples": samples}, "", " ")
	os.WriteFile(stats, st, 0o644)
}
