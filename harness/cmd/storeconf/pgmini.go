package main

// pgmini: the fake database of -mode project. It holds the projected tables of a bucket
// (as Projection.tla's db variable describes them, for all ledgers) and evaluates the
// statements the real Store sends, following PostgreSQL's rules for the constructs those
// statements use: conjunctive WHERE clauses over column / literal comparisons, (left)
// joins with ON conditions, lateral LIMIT 1 sub-selects, DISTINCT ON, ORDER BY, LIMIT,
// result-column naming ("case" for an unnamed CASE, the function name for a call, the
// alias after AS), count(*) over a sub-select, and the schema's read functions.
// A construct it does not know makes the run undecided (exit 2), never a verdict.

import (
	"database/sql/driver"
	"encoding/json"
	"fmt"
	"regexp"
	"sort"
	"strconv"
	"strings"
	"sync"
	"time"
)

type row map[string]any // "table.column" -> value (int64, string, time.Time, nil)

type table struct {
	name string
	cols []string
	rows []map[string]any
}

type pgmini struct {
	tables map[string]*table
}

type unsupported struct{ what string }

func (u unsupported) Error() string { return "pgmini: unsupported: " + u.what }

func unsup(format string, a ...any) error { return unsupported{fmt.Sprintf(format, a...)} }

// ---- lexical helpers --------------------------------------------------------

// topLevel calls f for every byte offset at parenthesis depth 0 outside quotes.
func topLevelIndexes(s string) []bool {
	ok := make([]bool, len(s))
	depth := 0
	var quote byte
	for i := 0; i < len(s); i++ {
		c := s[i]
		if quote != 0 {
			if c == quote {
				if i+1 < len(s) && s[i+1] == quote {
					i++
					continue
				}
				quote = 0
			}
			continue
		}
		switch c {
		case '\'', '"':
			quote = c
		case '(':
			depth++
		case ')':
			depth--
		default:
			if depth == 0 {
				ok[i] = true
			}
		}
	}
	return ok
}

// findKeyword returns the offsets of keyword kw (case-insensitive, whole word) at top level.
func findKeyword(s string, kw string) []int {
	ok := topLevelIndexes(s)
	low := strings.ToLower(s)
	kw = strings.ToLower(kw)
	var out []int
	for i := 0; i+len(kw) <= len(low); i++ {
		if !ok[i] || low[i:i+len(kw)] != kw {
			continue
		}
		if i > 0 && isWord(low[i-1]) {
			continue
		}
		if i+len(kw) < len(low) && isWord(low[i+len(kw)]) {
			continue
		}
		out = append(out, i)
	}
	return out
}

func isWord(c byte) bool {
	return c == '_' || (c >= 'a' && c <= 'z') || (c >= 'A' && c <= 'Z') || (c >= '0' && c <= '9')
}

func splitTop(s string, sep string) []string {
	idx := findSep(s, sep)
	var out []string
	prev := 0
	for _, i := range idx {
		out = append(out, strings.TrimSpace(s[prev:i]))
		prev = i + len(sep)
	}
	out = append(out, strings.TrimSpace(s[prev:]))
	return out
}

func findSep(s, sep string) []int {
	if sep == "," {
		ok := topLevelIndexes(s)
		var out []int
		for i := 0; i < len(s); i++ {
			if ok[i] && s[i] == ',' {
				out = append(out, i)
			}
		}
		return out
	}
	return findKeyword(s, sep)
}

func stripParens(s string) string {
	s = strings.TrimSpace(s)
	for len(s) >= 2 && s[0] == '(' && s[len(s)-1] == ')' {
		// the outer pair must match
		depth := 0
		matched := true
		var quote byte
		for i := 0; i < len(s); i++ {
			c := s[i]
			if quote != 0 {
				if c == quote {
					quote = 0
				}
				continue
			}
			if c == '\'' || c == '"' {
				quote = c
			} else if c == '(' {
				depth++
			} else if c == ')' {
				depth--
				if depth == 0 && i != len(s)-1 {
					matched = false
					break
				}
			}
		}
		if !matched {
			break
		}
		s = strings.TrimSpace(s[1 : len(s)-1])
	}
	return s
}

// ---- statement structure ------------------------------------------------------

type selectStmt struct {
	distinctOn string
	items      []string
	from       string
	joins      []joinClause
	where      []string
	orderBy    []string
	limit      int
	offset     int
}

type joinClause struct {
	left    bool
	lateral bool
	target  string // table, function call or (sub-select)
	alias   string
	on      []string
}

var reKw = regexp.MustCompile(`(?i)^\s*select\s`)

var (
	parseCache   = map[string]*selectStmt{}
	parseCacheMu sync.Mutex
)

func parseSelect(sql string) (*selectStmt, error) {
	parseCacheMu.Lock()
	if st, ok := parseCache[sql]; ok {
		parseCacheMu.Unlock()
		return st, nil
	}
	parseCacheMu.Unlock()
	st, err := parseSelectUncached(sql)
	if err == nil {
		parseCacheMu.Lock()
		if len(parseCache) > 200000 {
			parseCache = map[string]*selectStmt{}
		}
		parseCache[sql] = st
		parseCacheMu.Unlock()
	}
	return st, err
}

func parseSelectUncached(sql string) (*selectStmt, error) {
	s := strings.TrimSpace(sql)
	if !reKw.MatchString(s) {
		return nil, unsup("not a SELECT: %.80s", s)
	}
	type kwpos struct {
		kw  string
		pos int
	}
	var marks []kwpos
	for _, kw := range []string{"select", "from", "where", "group by", "order by", "limit", "offset"} {
		ps := findKeyword(s, kw)
		if len(ps) > 1 && kw != "select" {
			return nil, unsup("keyword %q twice at top level", kw)
		}
		if len(ps) >= 1 {
			marks = append(marks, kwpos{kw, ps[0]})
		}
	}
	sort.Slice(marks, func(i, j int) bool { return marks[i].pos < marks[j].pos })
	part := map[string]string{}
	for i, m := range marks {
		end := len(s)
		if i+1 < len(marks) {
			end = marks[i+1].pos
		}
		part[m.kw] = strings.TrimSpace(s[m.pos+len(m.kw) : end])
	}
	if _, ok := part["group by"]; ok {
		return nil, unsup("GROUP BY at top level")
	}
	st := &selectStmt{limit: -1}
	sel := part["select"]
	if m := reInl1.FindStringSubmatch(sel); m != nil {
		st.distinctOn = stripParens(m[1])
		sel = m[2]
	}
	st.items = splitTop(sel, ",")
	// FROM: base then joins
	from := part["from"]
	type jpos struct {
		pos, n        int
		left, lateral bool
	}
	var jps []jpos
	ok := topLevelIndexes(from)
	low := strings.ToLower(from)
	reJoin := reInl2
	for _, loc := range reJoin.FindAllStringIndex(low, -1) {
		if !ok[loc[0]] {
			continue
		}
		txt := low[loc[0]:loc[1]]
		jps = append(jps, jpos{loc[0], loc[1] - loc[0], strings.HasPrefix(txt, "left"), strings.Contains(txt, "lateral")})
	}
	if len(jps) == 0 {
		st.from = strings.TrimSpace(from)
	} else {
		st.from = strings.TrimSpace(from[:jps[0].pos])
	}
	for i, jp := range jps {
		end := len(from)
		if i+1 < len(jps) {
			end = jps[i+1].pos
		}
		body := strings.TrimSpace(from[jp.pos+jp.n : end])
		onPos := findKeyword(body, "on")
		if len(onPos) == 0 {
			return nil, unsup("join without ON: %s", body)
		}
		target := strings.TrimSpace(body[:onPos[len(onPos)-1]])
		on := strings.TrimSpace(body[onPos[len(onPos)-1]+2:])
		jc := joinClause{left: jp.left, lateral: jp.lateral}
		// alias: trailing word (optionally after AS)
		if m := reInl3.FindStringSubmatch(target); m != nil && (strings.HasSuffix(strings.TrimSpace(m[1]), ")") || !strings.ContainsAny(m[1], "( ")) {
			jc.target, jc.alias = strings.TrimSpace(m[1]), m[2]
		} else {
			jc.target = target
			jc.alias = strings.Trim(target, `"`)
		}
		if strings.ToLower(on) != "true" {
			jc.on = splitTop(on, "and")
		}
		st.joins = append(st.joins, jc)
	}
	if w, ok := part["where"]; ok {
		for _, c := range splitTop(w, "and") {
			st.where = append(st.where, stripParens(c))
		}
	}
	if o, ok := part["order by"]; ok {
		st.orderBy = splitTop(o, ",")
	}
	if l, ok := part["limit"]; ok {
		n, err := strconv.Atoi(strings.TrimSpace(l))
		if err != nil {
			return nil, unsup("LIMIT %q", l)
		}
		st.limit = n
	}
	if o, ok := part["offset"]; ok {
		n, err := strconv.Atoi(strings.TrimSpace(o))
		if err != nil {
			return nil, unsup("OFFSET %q", o)
		}
		st.offset = n
	}
	return st, nil
}

// ---- values ---------------------------------------------------------------------

var reTime = regexp.MustCompile(`^\d{4}-\d\d-\d\d[T ]\d\d:\d\d:\d\d`)

func parseTime(s string) (time.Time, bool) {
	for _, layout := range []string{time.RFC3339Nano, "2006-01-02T15:04:05.999999Z", "2006-01-02 15:04:05"} {
		if t, err := time.Parse(layout, s); err == nil {
			return t.UTC(), true
		}
	}
	return time.Time{}, false
}

// compare follows the column's type: a quoted literal is coerced to it
func compare(a, b any) (int, bool) {
	if a == nil || b == nil {
		return 0, false // NULL: unknown
	}
	switch x := a.(type) {
	case int64:
		switch y := b.(type) {
		case int64:
			return cmpInt(x, y), true
		case string:
			n, err := strconv.ParseInt(y, 10, 64)
			if err != nil {
				return 0, false
			}
			return cmpInt(x, n), true
		}
	case time.Time:
		switch y := b.(type) {
		case time.Time:
			return cmpInt(x.UnixNano(), y.UnixNano()), true
		case string:
			t, ok := parseTime(y)
			if !ok {
				return 0, false
			}
			return cmpInt(x.UnixNano(), t.UnixNano()), true
		}
	case string:
		switch y := b.(type) {
		case string:
			return strings.Compare(x, y), true
		case int64, time.Time:
			c, ok := compare(y, x)
			return -c, ok
		}
	}
	return 0, false
}

func cmpInt(a, b int64) int {
	if a < b {
		return -1
	}
	if a > b {
		return 1
	}
	return 0
}

// ---- expression evaluation ------------------------------------------------------

var (
	reColRef  = regexp.MustCompile(`^(?:"?(\w+)"?\.)?"?(\w+)"?$`)
	reLiteral = regexp.MustCompile(`^'((?:[^']|'')*)'(?:::\w+)?$`)
	reCmp     = regexp.MustCompile(`^(.*?)\s*(<=|>=|<>|!=|=|<|>)\s*(.*)$`)
	reCall    = regexp.MustCompile(`(?s)^(\w+)\s*\((.*)\)$`)
	reAs      = regexp.MustCompile(`(?is)^(.*)\s+as\s+"?(\w+)"?$`)
	reCase    = regexp.MustCompile(`(?is)^case\s+when\s+(.*?)\s+then\s+(.*?)\s+else\s+(.*?)\s+end$`)
)

func (r row) lookup(tbl, col string) (any, error) {
	if tbl != "" {
		v, ok := r[tbl+"."+col]
		if !ok {
			return nil, unsup("column %s.%s", tbl, col)
		}
		return v, nil
	}
	// an unqualified name resolves in the innermost query level first (local), then outwards
	local, _ := r["\x00local"].([]string)
	pick := func(onlyLocal bool) (any, int, bool) {
		var first any
		n, same := 0, true
		for k, v := range r {
			if !strings.HasSuffix(k, "."+col) || strings.HasPrefix(k, "\x00") {
				continue
			}
			if onlyLocal {
				alias := k[:len(k)-len(col)-1]
				in := false
				for _, a := range local {
					if a == alias {
						in = true
					}
				}
				if !in {
					continue
				}
			}
			if n == 0 {
				first = v
			} else if fmt.Sprint(v) != fmt.Sprint(first) {
				same = false
			}
			n++
		}
		return first, n, same
	}
	for _, onlyLocal := range []bool{true, false} {
		v, n, same := pick(onlyLocal)
		if n == 0 {
			continue
		}
		if n > 1 && !same {
			return nil, unsup("ambiguous column %s", col)
		}
		return v, nil
	}
	return nil, unsup("column %s", col)
}

func (db *pgmini) evalExpr(e string, r row) (any, error) {
	e = strings.TrimSpace(e)
	if strings.EqualFold(e, "null") {
		return nil, nil
	}
	if m := reLiteral.FindStringSubmatch(e); m != nil {
		return strings.ReplaceAll(m[1], "''", "'"), nil
	}
	if n, err := strconv.ParseInt(e, 10, 64); err == nil {
		return n, nil
	}
	if m := reCase.FindStringSubmatch(e); m != nil {
		c, err := db.evalCond(m[1], r)
		if err != nil {
			return nil, err
		}
		if c {
			return db.evalExpr(m[2], r)
		}
		return db.evalExpr(m[3], r)
	}
	if m := reCall.FindStringSubmatch(e); m != nil && balanced(m[2]) {
		return db.call(strings.ToLower(m[1]), splitTop(m[2], ","), r)
	}
	if m := reColRef.FindStringSubmatch(e); m != nil {
		return r.lookup(m[1], m[2])
	}
	return nil, unsup("expression %q", e)
}

func balanced(s string) bool {
	d := 0
	for _, c := range s {
		if c == '(' {
			d++
		} else if c == ')' {
			d--
			if d < 0 {
				return false
			}
		}
	}
	return d == 0
}

// evalCond: conjunctions of comparisons and IS [NOT] NULL; NULL comparisons are false
func (db *pgmini) evalCond(c string, r row) (bool, error) {
	c = stripParens(c)
	parts := splitTop(c, "and")
	if len(parts) > 1 {
		for _, p := range parts {
			ok, err := db.evalCond(p, r)
			if err != nil || !ok {
				return false, err
			}
		}
		return true, nil
	}
	if ors := splitTop(c, "or"); len(ors) > 1 {
		// reached only when there is no top-level AND: a disjunction of parenthesised or atomic conditions
		for _, p := range ors {
			ok, err := db.evalCond(p, r)
			if err != nil {
				return false, err
			}
			if ok {
				return true, nil
			}
		}
		return false, nil
	}
	low := strings.ToLower(c)
	if strings.HasSuffix(low, " is not null") {
		v, err := db.evalExpr(c[:len(c)-len(" is not null")], r)
		return v != nil, err
	}
	if strings.HasSuffix(low, " is null") {
		v, err := db.evalExpr(c[:len(c)-len(" is null")], r)
		return v == nil, err
	}
	if low == "true" {
		return true, nil
	}
	if m := reJSONPathSeg.FindStringSubmatch(strings.TrimSpace(c)); m != nil {
		seg, err := db.segments(m[1], r)
		if err != nil {
			return false, err
		}
		i, _ := strconv.Atoi(m[2])
		return i < len(seg) && seg[i] == m[3], nil
	}
	if m := reContainsArr.FindStringSubmatch(strings.TrimSpace(c)); m != nil {
		return db.postingsContain(m[1], m[2], r)
	}
	m := reCmp.FindStringSubmatch(c)
	if m == nil {
		return false, unsup("condition %q", c)
	}
	a, err := db.evalExpr(m[1], r)
	if err != nil {
		return false, err
	}
	b, err := db.evalExpr(m[3], r)
	if err != nil {
		return false, err
	}
	cmp, ok := compare(a, b)
	if !ok {
		if a == nil || b == nil {
			return false, nil
		}
		return false, unsup("comparison of %T with %T in %q", a, b, c)
	}
	switch m[2] {
	case "=":
		return cmp == 0, nil
	case "<":
		return cmp < 0, nil
	case "<=":
		return cmp <= 0, nil
	case ">":
		return cmp > 0, nil
	case ">=":
		return cmp >= 0, nil
	default:
		return cmp != 0, nil
	}
}

// ---- the schema's read functions (0-init-schema.sql) -----------------------------

func (db *pgmini) moves(pred func(m map[string]any) bool) []map[string]any {
	var out []map[string]any
	for _, m := range db.tables["moves"].rows {
		if pred(m) {
			out = append(out, m)
		}
	}
	return out
}

func before(v any, lim any) bool {
	if lim == nil {
		return true
	}
	c, ok := compare(v, lim)
	return ok && c <= 0
}

func volumesJSON(byAsset map[string][2]int64) string {
	keys := []string{}
	for k := range byAsset {
		keys = append(keys, k)
	}
	sort.Strings(keys)
	parts := []string{}
	for _, k := range keys {
		parts = append(parts, fmt.Sprintf(`%q: {"input": %d, "output": %d}`, k, byAsset[k][0], byAsset[k][1]))
	}
	return "{" + strings.Join(parts, ", ") + "}"
}

func (db *pgmini) allAssets(ledger any) []string {
	seen := map[string]bool{}
	for _, m := range db.moves(func(m map[string]any) bool { return m["ledger"] == ledger }) {
		seen[m["asset"].(string)] = true
	}
	out := []string{}
	for a := range seen {
		out = append(out, a)
	}
	sort.Strings(out)
	return out
}

// segments of the address column behind an "<address column>_array" reference (the schema keeps the
// segments of every address next to it as a jsonb array)
func (db *pgmini) segments(ref string, r row) ([]string, error) {
	ref = strings.TrimSpace(ref)
	if !strings.HasSuffix(ref, "_array") {
		return nil, unsup("array reference %q", ref)
	}
	v, err := db.evalExpr(strings.TrimSuffix(ref, "_array"), r)
	if err != nil {
		return nil, err
	}
	s, ok := v.(string)
	if !ok {
		return nil, unsup("array reference %q over %T", ref, v)
	}
	return strings.Split(s, ":"), nil
}

// <sources|destinations>_arrays @> '<json>': the schema keeps, per transaction, one object per source (destination)
// address: segment index -> segment, plus the number of segments -> null. Containment of a one-element array holding
// an object: some address object has every key of the pattern with an equal value. The other form is
// <sources|destinations> @> '["addr"]' over the plain address lists.
var reContainsArr = regexp.MustCompile(`^(?:\S+\.)?(sources_arrays|destinations_arrays|sources|destinations)\s*@>\s*'(.*)'$`)

func (db *pgmini) postingsContain(col, pattern string, r row) (bool, error) {
	v, err := r.lookup("", "postings")
	if err != nil {
		return false, err
	}
	text, ok := v.(string)
	if !ok {
		return false, unsup("postings column of type %T", v)
	}
	var ps []struct {
		Source      string `json:"source"`
		Destination string `json:"destination"`
	}
	if err := json.Unmarshal([]byte(text), &ps); err != nil {
		return false, unsup("postings %q", text)
	}
	addrs := []string{}
	for _, p := range ps {
		if strings.HasPrefix(col, "sources") {
			addrs = append(addrs, p.Source)
		} else {
			addrs = append(addrs, p.Destination)
		}
	}
	if !strings.HasSuffix(col, "_arrays") {
		var want []string
		if err := json.Unmarshal([]byte(pattern), &want); err != nil {
			return false, unsup("containment pattern %q", pattern)
		}
		for _, w := range want {
			found := false
			for _, a := range addrs {
				found = found || a == w
			}
			if !found {
				return false, nil
			}
		}
		return true, nil
	}
	var want []map[string]*string
	if err := json.Unmarshal([]byte(pattern), &want); err != nil {
		return false, unsup("containment pattern %q", pattern)
	}
	for _, w := range want {
		found := false
		for _, a := range addrs {
			seg := strings.Split(a, ":")
			obj := map[string]*string{strconv.Itoa(len(seg)): nil}
			for i := range seg {
				obj[strconv.Itoa(i)] = &seg[i]
			}
			all := true
			for k, val := range w {
				have, ok := obj[k]
				if !ok || (val == nil) != (have == nil) || (val != nil && *val != *have) {
					all = false
				}
			}
			found = found || all
		}
		if !found {
			return false, nil
		}
	}
	return true, nil
}

var reJSONPathSeg = regexp.MustCompile(`^(\S+)\s*@@\s*\('\$\[(\d+)\] == "([^"']*)"'\)::jsonpath$`)

func (db *pgmini) call(name string, args []string, r row) (any, error) {
	if name == "jsonb_array_length" && len(args) == 1 {
		seg, err := db.segments(args[0], r)
		if err != nil {
			return nil, err
		}
		return int64(len(seg)), nil
	}
	vals := make([]any, len(args))
	for i, a := range args {
		// named notation: _before := x
		if j := strings.Index(a, ":="); j >= 0 {
			a = a[j+2:]
		}
		v, err := db.evalExpr(a, r)
		if err != nil {
			return nil, err
		}
		vals[i] = v
	}
	arg := func(i int) any {
		if i < len(vals) {
			return vals[i]
		}
		return nil
	}
	switch name {
	case "coalesce":
		for _, v := range vals {
			if v != nil {
				return v, nil
			}
		}
		return nil, nil
	case "get_account_balance":
		ms := db.moves(func(m map[string]any) bool {
			return m["ledger"] == arg(0) && m["account_address"] == arg(1) && m["asset"] == arg(2) && before(m["effective_date"], arg(3))
		})
		if len(ms) == 0 {
			return nil, nil
		}
		v := ms[len(ms)-1]["post_commit_volumes"].([2]int64)
		return v[0] - v[1], nil
	case "get_account_aggregated_volumes", "get_account_aggregated_effective_volumes":
		eff := name == "get_account_aggregated_effective_volumes"
		out := map[string][2]int64{}
		for _, asset := range db.allAssets(arg(0)) {
			ms := db.moves(func(m map[string]any) bool {
				col := "insertion_date"
				if eff {
					col = "effective_date"
				}
				return m["ledger"] == arg(0) && m["account_address"] == arg(1) && m["asset"] == asset && before(m[col], arg(2))
			})
			if len(ms) == 0 {
				continue
			}
			if eff {
				// order by effective_date desc, seq desc limit 1
				sort.SliceStable(ms, func(i, j int) bool {
					c, _ := compare(ms[i]["effective_date"], ms[j]["effective_date"])
					if c != 0 {
						return c < 0
					}
					return ms[i]["seq"].(int64) < ms[j]["seq"].(int64)
				})
				out[asset] = ms[len(ms)-1]["post_commit_effective_volumes"].([2]int64)
			} else {
				out[asset] = ms[len(ms)-1]["post_commit_volumes"].([2]int64)
			}
		}
		return volumesJSON(out), nil
	case "get_aggregated_volumes_for_transaction", "get_aggregated_effective_volumes_for_transaction":
		col := "post_commit_volumes"
		if name == "get_aggregated_effective_volumes_for_transaction" {
			col = "post_commit_effective_volumes"
		}
		// first() over an unordered group is unspecified: the last move of the group is taken (DESIGN.md, C04)
		byAcct := map[string]map[string][2]int64{}
		for _, m := range db.moves(func(m map[string]any) bool {
			c, ok := compare(m["transactions_seq"], arg(1))
			return m["ledger"] == arg(0) && ok && c == 0
		}) {
			a := m["account_address"].(string)
			if byAcct[a] == nil {
				byAcct[a] = map[string][2]int64{}
			}
			byAcct[a][m["asset"].(string)] = m[col].([2]int64)
		}
		keys := []string{}
		for k := range byAcct {
			keys = append(keys, k)
		}
		sort.Strings(keys)
		parts := []string{}
		for _, k := range keys {
			parts = append(parts, fmt.Sprintf("%q: %s", k, volumesJSON(byAcct[k])))
		}
		return "{" + strings.Join(parts, ", ") + "}", nil
	}
	return nil, unsup("function %s", name)
}

// ---- evaluation -------------------------------------------------------------------

func (db *pgmini) baseRows(name, alias string) ([]row, []string, error) {
	t, ok := db.tables[name]
	if !ok {
		return nil, nil, unsup("relation %q", name)
	}
	var out []row
	for _, r := range t.rows {
		nr := row{}
		for k, v := range r {
			nr[alias+"."+k] = v
		}
		out = append(out, nr)
	}
	return out, t.cols, nil
}

type relation struct {
	rows []row
	// alias -> ordered column names
	cols  map[string][]string
	order []string // aliases in FROM order
}

func merge(a, b row) row {
	out := row{}
	for k, v := range a {
		out[k] = v
	}
	for k, v := range b {
		out[k] = v
	}
	return out
}

// subSelect evaluates a parenthesised SELECT in the scope of an outer row (lateral)
func (db *pgmini) subSelect(sql string, outer row) ([]string, [][]any, error) {
	return db.evalSelect(stripParens(sql), outer)
}

func (db *pgmini) evalSelect(sql string, outer row) ([]string, [][]any, error) {
	st, err := parseSelect(sql)
	if err != nil {
		return nil, nil, err
	}
	rel := &relation{cols: map[string][]string{}}
	// FROM
	from := st.from
	fromAlias := ""
	if m := reInl3.FindStringSubmatch(from); m != nil && (strings.HasSuffix(strings.TrimSpace(m[1]), ")")) {
		from, fromAlias = strings.TrimSpace(m[1]), m[2]
	}
	switch {
	case strings.HasPrefix(from, "("):
		cols, data, err := db.subSelect(from, outer)
		if err != nil {
			return nil, nil, err
		}
		if fromAlias == "" {
			return nil, nil, unsup("sub-select without alias")
		}
		for _, d := range data {
			r := merge(outer, row{})
			for i, c := range cols {
				r[fromAlias+"."+c] = d[i]
			}
			rel.rows = append(rel.rows, r)
		}
		rel.cols[fromAlias] = cols
		rel.order = append(rel.order, fromAlias)
	case reCall.MatchString(from):
		m := reCall.FindStringSubmatch(from)
		v, err := db.call(strings.ToLower(m[1]), splitTop(m[2], ","), outer)
		if err != nil {
			return nil, nil, err
		}
		if fromAlias == "" {
			fromAlias = strings.ToLower(m[1])
		}
		r := merge(outer, row{fromAlias + "." + fromAlias: v})
		rel.rows = []row{r}
		rel.cols[fromAlias] = []string{fromAlias}
		rel.order = append(rel.order, fromAlias)
	default:
		name := strings.Trim(from, `"`)
		alias := name
		if m := reInl11.FindStringSubmatch(from); m != nil {
			name, alias = m[1], m[2]
		}
		rows, cols, err := db.baseRows(name, alias)
		if err != nil {
			return nil, nil, err
		}
		for _, r := range rows {
			rel.rows = append(rel.rows, merge(outer, r))
		}
		rel.cols[alias] = cols
		rel.order = append(rel.order, alias)
	}
	// JOINs
	for _, j := range st.joins {
		var next []row
		var jcols []string
		for _, r := range rel.rows {
			var cands []row
			switch {
			case strings.HasPrefix(j.target, "("):
				cols, data, err := db.subSelect(j.target, r)
				if err != nil {
					return nil, nil, err
				}
				jcols = cols
				for _, d := range data {
					nr := row{}
					for i, c := range cols {
						nr[j.alias+"."+c] = d[i]
					}
					cands = append(cands, nr)
				}
			case reCall.MatchString(j.target):
				m := reCall.FindStringSubmatch(j.target)
				v, err := db.call(strings.ToLower(m[1]), splitTop(m[2], ","), r)
				if err != nil {
					return nil, nil, err
				}
				jcols = []string{j.alias}
				cands = []row{{j.alias + "." + j.alias: v}}
			default:
				name := strings.Trim(j.target, `"`)
				rows, cols, err := db.baseRows(name, j.alias)
				if err != nil {
					return nil, nil, err
				}
				jcols = cols
				cands = rows
			}
			matched := 0
			for _, c := range cands {
				full := merge(r, c)
				ok := true
				for _, cond := range j.on {
					o, err := db.evalCond(cond, full)
					if err != nil {
						return nil, nil, err
					}
					if !o {
						ok = false
						break
					}
				}
				if ok {
					next = append(next, full)
					matched++
				}
			}
			if matched == 0 && j.left {
				full := merge(r, row{})
				for _, c := range jcols {
					full[j.alias+"."+c] = nil
				}
				if jcols == nil {
					// no candidate rows at all: the null-extended row still needs the joined columns
					if t, ok := db.tables[strings.Trim(j.target, `"`)]; ok {
						for _, c := range t.cols {
							full[j.alias+"."+c] = nil
						}
						jcols = t.cols
					} else if strings.HasPrefix(j.target, "(") {
						if inner, err := parseSelect(stripParens(j.target)); err == nil {
							if t, ok := db.tables[strings.Trim(inner.from, `"`)]; ok && len(inner.items) == 1 && inner.items[0] == "*" {
								for _, c := range t.cols {
									full[j.alias+"."+c] = nil
								}
								jcols = t.cols
							}
						}
					}
				}
				next = append(next, full)
			}
		}
		if jcols == nil {
			if t, ok := db.tables[strings.Trim(j.target, `"`)]; ok {
				jcols = t.cols
			}
		}
		rel.rows = next
		rel.cols[j.alias] = jcols
		rel.order = append(rel.order, j.alias)
	}
	for _, r := range rel.rows {
		r["\x00local"] = rel.order
	}
	// WHERE
	var kept []row
	for _, r := range rel.rows {
		ok := true
		for _, c := range st.where {
			o, err := db.evalCond(c, r)
			if err != nil {
				return nil, nil, err
			}
			if !o {
				ok = false
				break
			}
		}
		if ok {
			kept = append(kept, r)
		}
	}
	// ORDER BY (stable, keys right to left)
	type key struct {
		expr string
		desc bool
	}
	var keys []key
	for _, o := range st.orderBy {
		k := key{expr: o}
		lo := strings.ToLower(o)
		if strings.HasSuffix(lo, " desc") {
			k.desc, k.expr = true, strings.TrimSpace(o[:len(o)-5])
		} else if strings.HasSuffix(lo, " asc") {
			k.expr = strings.TrimSpace(o[:len(o)-4])
		}
		keys = append(keys, k)
	}
	var sortErr error
	sort.SliceStable(kept, func(i, j int) bool {
		for _, k := range keys {
			a, err := db.evalExpr(k.expr, kept[i])
			if err != nil {
				sortErr = err
				return false
			}
			b, err := db.evalExpr(k.expr, kept[j])
			if err != nil {
				sortErr = err
				return false
			}
			// NULLs sort as larger than everything (PostgreSQL default)
			var c int
			switch {
			case a == nil && b == nil:
				c = 0
			case a == nil:
				c = 1
			case b == nil:
				c = -1
			default:
				var ok bool
				c, ok = compare(a, b)
				if !ok {
					sortErr = unsup("ordering %T / %T", a, b)
					return false
				}
			}
			if c != 0 {
				if k.desc {
					return c > 0
				}
				return c < 0
			}
		}
		return false
	})
	if sortErr != nil {
		return nil, nil, sortErr
	}
	// DISTINCT ON: first row of each group (PostgreSQL requires the ORDER BY to start with the expression;
	// without ORDER BY the groups are formed in scan order)
	if st.distinctOn != "" {
		if len(keys) > 0 && !sameColumn(keys[0].expr, st.distinctOn) {
			return nil, nil, unsup("DISTINCT ON (%s) with ORDER BY %s (PostgreSQL rejects it)", st.distinctOn, keys[0].expr)
		}
		seen := map[string]bool{}
		var d []row
		for _, r := range kept {
			v, err := db.evalExpr(st.distinctOn, r)
			if err != nil {
				return nil, nil, err
			}
			k := fmt.Sprint(v)
			if !seen[k] {
				seen[k] = true
				d = append(d, r)
			}
		}
		kept = d
	}
	if st.offset > 0 {
		if st.offset > len(kept) {
			kept = nil
		} else {
			kept = kept[st.offset:]
		}
	}
	if st.limit >= 0 && st.limit < len(kept) {
		kept = kept[:st.limit]
	}
	// SELECT list
	if len(st.items) == 1 && strings.EqualFold(strings.ReplaceAll(st.items[0], " ", ""), "count(*)") {
		return []string{"count"}, [][]any{{int64(len(kept))}}, nil
	}
	var names []string
	type item struct {
		star  string // alias for alias.*, "*" for all
		expr  string
		named string
	}
	var its []item
	for _, it := range st.items {
		it = strings.TrimSpace(it)
		if it == "*" {
			its = append(its, item{star: "*"})
			continue
		}
		if m := reInl12.FindStringSubmatch(it); m != nil {
			its = append(its, item{star: m[1]})
			continue
		}
		if m := reAs.FindStringSubmatch(it); m != nil {
			its = append(its, item{expr: m[1], named: m[2]})
			continue
		}
		name := "?column?"
		lo := strings.ToLower(it)
		switch {
		case strings.HasPrefix(lo, "case "):
			name = "case"
		case reCall.MatchString(it):
			name = strings.ToLower(reCall.FindStringSubmatch(it)[1])
		case reColRef.MatchString(it):
			name = reColRef.FindStringSubmatch(it)[2]
		}
		its = append(its, item{expr: it, named: name})
	}
	expand := func(alias string) []string { return rel.cols[alias] }
	for _, it := range its {
		switch {
		case it.star == "*":
			for _, a := range rel.order {
				names = append(names, expand(a)...)
			}
		case it.star != "":
			if _, ok := rel.cols[it.star]; !ok {
				return nil, nil, unsup("%s.* of unknown relation", it.star)
			}
			names = append(names, expand(it.star)...)
		default:
			names = append(names, it.named)
		}
	}
	var data [][]any
	for _, r := range kept {
		var out []any
		for _, it := range its {
			switch {
			case it.star == "*":
				for _, a := range rel.order {
					for _, c := range expand(a) {
						out = append(out, r[a+"."+c])
					}
				}
			case it.star != "":
				for _, c := range expand(it.star) {
					out = append(out, r[it.star+"."+c])
				}
			default:
				v, err := db.evalExpr(it.expr, r)
				if err != nil {
					return nil, nil, err
				}
				out = append(out, v)
			}
		}
		data = append(data, out)
	}
	return names, data, nil
}

func sameColumn(a, b string) bool {
	ma, mb := reColRef.FindStringSubmatch(strings.TrimSpace(a)), reColRef.FindStringSubmatch(strings.TrimSpace(b))
	return ma != nil && mb != nil && ma[2] == mb[2]
}

// aggregated balances: WITH "moves" AS (SELECT distinct on (account_address, asset) moves.* FROM "moves" WHERE ... ORDER BY
// account_address, asset, seq desc), "data" AS (... sum per asset ...) SELECT aggregate_objects(data.aggregated) FROM data
var reAggCTE = regexp.MustCompile(`(?is)^WITH\s+"moves"\s+AS\s+\((SELECT\s+distinct on \(moves\.account_address, moves\.asset\) moves\.\* FROM "moves".*?ORDER BY "account_address", "asset", "moves"\."seq" desc)\),\s*"data"\s+AS\s+\(SELECT volumes_to_jsonb\(\(moves\.asset, \(sum\(\(moves\.post_commit_volumes\)\.inputs\), sum\(\(moves\.post_commit_volumes\)\.outputs\)\)::volumes\)\) as aggregated FROM moves GROUP BY "moves"\."asset"\)\s*SELECT aggregate_objects\(data\.aggregated\) as aggregated FROM data$`)

func (db *pgmini) evalAggregated(sql string) ([]string, [][]any, error) {
	m := reAggCTE.FindStringSubmatch(strings.TrimSpace(sql))
	if m == nil {
		return nil, nil, unsup("WITH statement of unknown shape")
	}
	inner, err := parseSelect(m[1])
	if err != nil {
		return nil, nil, err
	}
	if len(inner.joins) > 0 {
		return nil, nil, unsup("joins in the aggregated-balances CTE")
	}
	rows, _, _ := db.baseRows("moves", "moves")
	latest := map[string]row{}
	for _, r := range rows {
		ok := true
		for _, c := range inner.where {
			o, err := db.evalCond(c, r)
			if err != nil {
				return nil, nil, err
			}
			if !o {
				ok = false
			}
		}
		if !ok {
			continue
		}
		k := r["moves.account_address"].(string) + "\x00" + r["moves.asset"].(string)
		if cur, ok := latest[k]; !ok || cur["moves.seq"].(int64) < r["moves.seq"].(int64) {
			latest[k] = r
		}
	}
	sum := map[string][2]int64{}
	for _, r := range latest {
		v := r["moves.post_commit_volumes"].([2]int64)
		a := r["moves.asset"].(string)
		s := sum[a]
		sum[a] = [2]int64{s[0] + v[0], s[1] + v[1]}
	}
	return []string{"aggregated"}, [][]any{{volumesJSON(sum)}}, nil
}

// Answer is the fakepg hook.
func (db *pgmini) Answer(sql string) ([]string, [][]driver.Value, error) {
	var cols []string
	var data [][]any
	var err error
	if strings.HasPrefix(strings.ToUpper(strings.TrimSpace(sql)), "WITH") {
		cols, data, err = db.evalAggregated(sql)
	} else {
		cols, data, err = db.evalSelect(sql, row{})
	}
	if err != nil {
		return nil, nil, err
	}
	out := make([][]driver.Value, len(data))
	for i, d := range data {
		out[i] = make([]driver.Value, len(d))
		for j, v := range d {
			switch x := v.(type) {
			case [2]int64:
				out[i][j] = fmt.Sprintf("(%d,%d)", x[0], x[1])
			case int64:
				out[i][j] = strconv.FormatInt(x, 10)
			default:
				out[i][j] = x
			}
		}
	}
	return cols, out, nil
}

var (
	reInl1  = regexp.MustCompile(`(?is)^distinct\s+on\s*(\([^)]*\))\s*(.*)$`)
	reInl2  = regexp.MustCompile(`(?i)\b(left\s+join\s+lateral|left\s+join|join\s+lateral|join)\b`)
	reInl3  = regexp.MustCompile(`(?is)^(.*?)(?:\s+as)?\s+"?(\w+)"?$`)
	reInl11 = regexp.MustCompile(`^"?(\w+)"?\s+(?:as\s+)?"?(\w+)"?$`)
	reInl12 = regexp.MustCompile(`^"?(\w+)"?\.\*$`)
)

var _ = json.Marshal
