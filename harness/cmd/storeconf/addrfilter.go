package main

// -mode addrfilter: C04, address filters. For every case emitted by AddrFilter.tla (a filter, the addresses held by
// the ledger and by another ledger of the same database, the addresses the listing must return) the real Store lists
// and counts the ledger's accounts under $match address = filter; the statements it builds are evaluated by pgmini.

import (
	"bufio"
	"context"
	"encoding/json"
	"fmt"
	"os"
	"sort"

	"github.com/formancehq/ledger/internal/storage/ledgerstore"
	"github.com/formancehq/stack/libs/go-libs/query"
)

type afCase struct {
	Filter  string   `json:"filter"`
	Own     []string `json:"own"`
	Foreign []string `json:"foreign"`
	Expect  []string `json:"expect"`
	Txs     []struct {
		ID       int64 `json:"id"`
		Src, Dst string
	} `json:"txs"`
	BySource      []int64 `json:"bySource"`
	ByDestination []int64 `json:"byDestination"`
	ByAccount     []int64 `json:"byAccount"`
}

func modeAddrFilter(in, out, statsPath string) {
	f, err := os.Open(in)
	if err != nil {
		fmt.Fprintln(os.Stderr, err)
		os.Exit(2)
	}
	of, _ := os.Create(out)
	w := bufio.NewWriter(of)
	sc := bufio.NewScanner(f)
	sc.Buffer(make([]byte, 1<<20), 1<<24)
	p := &projector{stmts: map[string]bool{}}
	n, nonEmpty, open := 0, 0, 0
	var samples []any
	for sc.Scan() {
		var c afCase
		if err := json.Unmarshal(sc.Bytes(), &c); err != nil {
			fmt.Fprintln(os.Stderr, "bad case", err)
			os.Exit(2)
		}
		h := &history{}
		for _, a := range c.Own {
			h.Db.Accts = append(h.Db.Accts, dbAcct{Ledger: "l1", Addr: a, Ins: 1, Upd: 1, Md: md{}})
		}
		for _, a := range c.Foreign {
			h.Db.Accts = append(h.Db.Accts, dbAcct{Ledger: "l2", Addr: a, Ins: 1, Upd: 1, Md: md{}})
		}
		for _, t := range c.Txs {
			// the same transactions in both ledgers of the bucket
			for _, l := range []string{"l1", "l2"} {
				h.Db.Txs = append(h.Db.Txs, dbTx{Ledger: l, ID: t.ID, Ts: 1, Upd: 1, Md: md{}, Postings: []posting{{t.Src, t.Dst, "USD", 1}}})
			}
		}
		db := buildDB(h, "")
		v := p.open(db, "l1")
		ctx := context.Background()
		opts := ledgerstore.NewPaginatedQueryOptions(ledgerstore.PITFilterWithVolumes{}).
			WithQueryBuilder(query.Match("address", c.Filter)).WithPageSize(100)
		list, err := v.store.GetAccountsWithVolumes(ctx, ledgerstore.NewGetAccountsQuery(opts))
		if err != nil {
			fmt.Fprintf(os.Stderr, "GetAccountsWithVolumes(%q): %v\n%v\n", c.Filter, err, p.unsup)
			os.Exit(2)
		}
		cnt, err := v.store.CountAccounts(ctx, ledgerstore.NewGetAccountsQuery(opts))
		if err != nil {
			fmt.Fprintf(os.Stderr, "CountAccounts(%q): %v\n%v\n", c.Filter, err, p.unsup)
			os.Exit(2)
		}
		listed := []string{}
		for _, a := range list.Data {
			listed = append(listed, a.Address)
		}
		sort.Strings(listed)
		sort.Strings(c.Expect)
		line := map[string]any{"filter": c.Filter, "own": c.Own, "expect": c.Expect, "listed": listed, "count": cnt}
		if len(c.Txs) > 0 {
			for _, k := range []struct{ key, out string }{{"source", "gotSource"}, {"destination", "gotDestination"}, {"account", "gotAccount"}} {
				topts := ledgerstore.NewPaginatedQueryOptions(ledgerstore.PITFilterWithVolumes{}).
					WithQueryBuilder(query.Match(k.key, c.Filter)).WithPageSize(100)
				tl, err := v.store.GetTransactions(ctx, ledgerstore.NewGetTransactionsQuery(topts))
				if err != nil {
					fmt.Fprintf(os.Stderr, "GetTransactions(%s=%q): %v\n%v\n", k.key, c.Filter, err, p.unsup)
					os.Exit(2)
				}
				ids := []int64{}
				for _, t := range tl.Data {
					ids = append(ids, t.ID.Int64())
				}
				line[k.out] = ids
				if k.key == "account" {
					n, err := v.store.CountTransactions(ctx, ledgerstore.NewGetTransactionsQuery(topts))
					if err != nil {
						fmt.Fprintf(os.Stderr, "CountTransactions(%q): %v\n%v\n", c.Filter, err, p.unsup)
						os.Exit(2)
					}
					line["countAccount"] = n
				}
			}
			line["bySource"], line["byDestination"], line["byAccount"] = c.BySource, c.ByDestination, c.ByAccount
		}
		n++
		if len(c.Expect) > 0 {
			nonEmpty++
		}
		for _, ch := range c.Filter {
			if ch == ':' {
				open++
				break
			}
		}
		if len(samples) < 2 && len(c.Expect) > 1 {
			samples = append(samples, line)
		}
		b, _ := json.Marshal(line)
		w.Write(b)
		w.WriteByte('\n')
	}
	w.Flush()
	of.Close()
	if len(p.unsup) > 0 {
		fmt.Fprintln(os.Stderr, "pgmini:", p.unsup[0])
		os.Exit(2)
	}
	st, _ := json.MarshalIndent(map[string]any{"cases": n, "cases_expecting_accounts": nonEmpty, "multi_segment_filters": open, "samples": samples}, "", " ")
	os.WriteFile(statsPath, st, 0o644)
}
