// storeconf drives the real ledgerstore.Store over the fake SQL driver.
//
//	-mode cursors : C17 (cursor part) - for every (endpoint, filter expression, options) case
//	                enumerated by TLC (Filter.tla): run the list query, take the cursor the real
//	                code hands out, decode it the way the controllers do, run the decoded query
//	                and compare the SQL both produce (pagination predicate aside).
package main

import (
	"bufio"
	"context"
	"database/sql/driver"
	"encoding/json"
	"flag"
	"fmt"
	"os"
	"regexp"
	"strconv"
	"strings"
	"time"

	ledger "github.com/formancehq/ledger/internal"
	"github.com/formancehq/ledger/internal/storage/ledgerstore"
	"github.com/formancehq/ledger/verifharness/fakepg"
	"github.com/formancehq/stack/libs/go-libs/bun/bunpaginate"
	"github.com/formancehq/stack/libs/go-libs/query"
)

type expr struct {
	T     string `json:"t"`
	Op    string `json:"op"`
	Key   string `json:"key"`
	Val   string `json:"val"`
	Items []expr `json:"items"`
}

type fcase struct {
	Ep   string `json:"ep"`
	Expr expr   `json:"expr"`
	Opt  struct {
		Pit       bool   `json:"pit"`
		Volumes   bool   `json:"volumes"`
		Effective bool   `json:"effective"`
		PageSize  uint64 `json:"pageSize"`
	} `json:"opt"`
	// C20: concrete value substituted for one leaf (index in leaf order), "" = none
	Value    *string `json:"value,omitempty"`
	ValueAt  int     `json:"valueAt,omitempty"`
	Baseline *string `json:"baseline,omitempty"`
}

// concrete value of a symbolic value kind
func valueOf(kind string) any {
	switch kind {
	case "addr":
		return "users:001"
	case "addr-segments":
		return "users::x"
	case "time":
		return "2023-01-02T03:04:05Z"
	case "num":
		return float64(100)
	default:
		return "abc"
	}
}

// exprJSON renders the expression as the JSON body the v2 API accepts.
func exprJSON(e expr, leaf *int, c *fcase, useBaseline bool) any {
	switch e.T {
	case "kv":
		v := valueOf(e.Val)
		if c.Value != nil && *leaf == c.ValueAt {
			if useBaseline {
				v = *c.Baseline
			} else {
				v = *c.Value
			}
		}
		*leaf++
		return map[string]any{e.Op: map[string]any{e.Key: v}}
	case "not":
		return map[string]any{"$not": exprJSON(e.Items[0], leaf, c, useBaseline)}
	case "and", "or":
		items := []any{}
		for _, it := range e.Items {
			items = append(items, exprJSON(it, leaf, c, useBaseline))
		}
		return map[string]any{"$" + e.T: items}
	}
	return nil
}

// builderOf builds the query.Builder the way the controllers do: from the JSON body
// when it parses ($not is not part of the v2 body grammar on every tree: fall back to
// the constructors the v1 controllers use).
func builderOf(e expr, leaf *int, c *fcase, useBaseline bool) query.Builder {
	switch e.T {
	case "none":
		return nil
	case "kv":
		v := valueOf(e.Val)
		if c.Value != nil && *leaf == c.ValueAt {
			if useBaseline {
				v = *c.Baseline
			} else {
				v = *c.Value
			}
		}
		*leaf++
		switch e.Op {
		case "$lt":
			return query.Lt(e.Key, v)
		case "$lte":
			return query.Lte(e.Key, v)
		case "$gt":
			return query.Gt(e.Key, v)
		case "$gte":
			return query.Gte(e.Key, v)
		}
		return query.Match(e.Key, v)
	case "not":
		return query.Not(builderOf(e.Items[0], leaf, c, useBaseline))
	default:
		items := []query.Builder{}
		for _, it := range e.Items {
			items = append(items, builderOf(it, leaf, c, useBaseline))
		}
		if e.T == "or" {
			return query.Or(items...)
		}
		return query.And(items...)
	}
}

var pit = func() ledger.Time {
	t, _ := time.Parse(time.RFC3339, "2023-06-01T10:00:00Z")
	return ledger.Time{Time: t}
}()

// rows the fake database serves: ids 1..10 for transactions / logs, ten accounts
func answer(sql string) ([]string, [][]driver.Value, bool) {
	low := strings.ToLower(sql)
	limit, offset := 1000, 0
	if m := fakepg.Last(regexp.MustCompile(`(?i)LIMIT\s+(\d+)`), sql); m != nil {
		limit, _ = strconv.Atoi(m[1])
	}
	if m := fakepg.Last(regexp.MustCompile(`(?i)OFFSET\s+(\d+)`), sql); m != nil {
		offset, _ = strconv.Atoi(m[1])
	}
	switch {
	case strings.Contains(low, `from "accounts"`) || strings.Contains(low, "from accounts"):
		rows := [][]driver.Value{}
		for i := offset; i < 10 && len(rows) < limit; i++ {
			rows = append(rows, []driver.Value{fmt.Sprintf("acc:%03d", i)})
		}
		return []string{"address"}, rows, true
	case strings.Contains(low, "logs"):
		ids := []int{10, 9, 8, 7, 6, 5, 4, 3, 2, 1}
		if m := regexp.MustCompile(`(?i)\(\s*"?id"?\s*(<=|>=|<|>)\s*'?(\d+)'?\s*\)`).FindStringSubmatch(sql); m != nil {
			n, _ := strconv.Atoi(m[2])
			kept := []int{}
			for _, id := range ids {
				if (m[1] == "<=" && id <= n) || (m[1] == "<" && id < n) || (m[1] == ">=" && id >= n) || (m[1] == ">" && id > n) {
					kept = append(kept, id)
				}
			}
			ids = kept
		}
		if regexp.MustCompile(`(?i)ORDER BY\s+"?id"?\s+ASC`).MatchString(sql) {
			for i, j := 0, len(ids)-1; i < j; i, j = i+1, j-1 {
				ids[i], ids[j] = ids[j], ids[i]
			}
		}
		rows := [][]driver.Value{}
		for _, id := range ids {
			if len(rows) >= limit {
				break
			}
			rows = append(rows, []driver.Value{strconv.Itoa(id), "SET_METADATA", `{"targetType":"ACCOUNT","targetId":"a","metadata":{}}`})
		}
		return []string{"id", "type", "data"}, rows, true
	}
	return nil, nil, false
}

var (
	rePagCol = regexp.MustCompile(`(?i)\s*(AND\s+)?\(\s*"?id"?\s*(<=|>=|<|>)\s*'?-?\d+'?\s*\)`)
	reOffset = regexp.MustCompile(`(?i)\s*OFFSET\s+\d+`)
)

func normalise(sqls []string) []string {
	out := []string{}
	for _, s := range sqls {
		s = rePagCol.ReplaceAllString(s, "")
		s = reOffset.ReplaceAllString(s, "")
		s = strings.ReplaceAll(s, "WHERE  AND", "WHERE")
		s = regexp.MustCompile(`WHERE\s+(ORDER|LIMIT|GROUP|$)`).ReplaceAllString(s, "$1")
		out = append(out, strings.Join(strings.Fields(s), " "))
	}
	return out
}

type cursorObs struct {
	Accepted   bool   `json:"accepted"`   // the store accepted the query
	HasNext    bool   `json:"hasNext"`    // a next cursor was handed out
	Decoded    bool   `json:"decoded"`    // ... and decoded back
	SameQuery  bool   `json:"sameQuery"`  // ... into a query rendering the same SQL
	SameOption bool   `json:"sameOption"` // ... with identical options (pit, expand flags, page size)
	Err        string `json:"err"`
	SQL        string `json:"sql"`
	SQL2       string `json:"sql2"`
}

func runCursorCase(c fcase) cursorObs {
	srv := &fakepg.Server{IDs: []int64{1, 2, 3, 4, 5, 6, 7, 8, 9, 10}, Answer: answer}
	db := fakepg.Open(srv)
	defer db.Close()
	store := ledgerstore.NewStoreOverDB(db, "bucket", "l1")
	ctx := context.Background()
	leaf := 0
	qb := builderOf(c.Expr, &leaf, &c, false)
	// the way a request reaches the store: the JSON body parsed by query.ParseJSON (the constructors
	// above are the fall-back for what the body grammar cannot say)
	if c.Expr.T != "none" {
		l := 0
		if body, err := json.Marshal(exprJSON(c.Expr, &l, &c, false)); err == nil {
			if parsed, err := query.ParseJSON(string(body)); err == nil && parsed != nil {
				qb = parsed
			}
		}
	}
	var p *ledger.Time
	if c.Opt.Pit {
		p = &pit
	}
	obs := cursorObs{}
	var next string
	var err error
	second := func(token string) ([]string, error) { return nil, nil }
	switch c.Ep {
	case "transactions":
		opts := ledgerstore.NewPaginatedQueryOptions(ledgerstore.PITFilterWithVolumes{PITFilter: ledgerstore.PITFilter{PIT: p}, ExpandVolumes: c.Opt.Volumes, ExpandEffectiveVolumes: c.Opt.Effective}).
			WithQueryBuilder(qb).WithPageSize(c.Opt.PageSize)
		q := ledgerstore.NewGetTransactionsQuery(opts)
		cur, e := store.GetTransactions(ctx, q)
		err = e
		if e == nil {
			next = cur.Next
		}
		second = func(token string) ([]string, error) {
			var q2 ledgerstore.GetTransactionsQuery
			if err := bunpaginate.UnmarshalCursor(token, &q2); err != nil {
				return nil, err
			}
			obs.SameOption = fmt.Sprint(q2.Options.Options.PIT) == fmt.Sprint(q.Options.Options.PIT) && q2.Options.Options.ExpandVolumes == q.Options.Options.ExpandVolumes &&
				q2.Options.Options.ExpandEffectiveVolumes == q.Options.Options.ExpandEffectiveVolumes && q2.PageSize == q.PageSize
			srv.Take()
			_, err := store.GetTransactions(ctx, q2)
			return srv.Take(), err
		}
	case "accounts":
		opts := ledgerstore.NewPaginatedQueryOptions(ledgerstore.PITFilterWithVolumes{PITFilter: ledgerstore.PITFilter{PIT: p}, ExpandVolumes: c.Opt.Volumes, ExpandEffectiveVolumes: c.Opt.Effective}).
			WithQueryBuilder(qb).WithPageSize(c.Opt.PageSize)
		q := ledgerstore.NewGetAccountsQuery(opts)
		cur, e := store.GetAccountsWithVolumes(ctx, q)
		err = e
		if e == nil {
			next = cur.Next
		}
		second = func(token string) ([]string, error) {
			var q2 ledgerstore.GetAccountsQuery
			if err := bunpaginate.UnmarshalCursor(token, &q2); err != nil {
				return nil, err
			}
			obs.SameOption = fmt.Sprint(q2.Options.Options.PIT) == fmt.Sprint(q.Options.Options.PIT) && q2.Options.Options.ExpandVolumes == q.Options.Options.ExpandVolumes &&
				q2.Options.Options.ExpandEffectiveVolumes == q.Options.Options.ExpandEffectiveVolumes && q2.PageSize == q.PageSize
			srv.Take()
			_, err := store.GetAccountsWithVolumes(ctx, q2)
			return srv.Take(), err
		}
	case "logs":
		opts := ledgerstore.NewPaginatedQueryOptions[any](nil).WithQueryBuilder(qb).WithPageSize(c.Opt.PageSize)
		q := ledgerstore.NewGetLogsQuery(opts)
		cur, e := func() (cur *struct{ Next string }, err error) {
			defer func() {
				if r := recover(); r != nil {
					err = fmt.Errorf("panic: %v", r)
				}
			}()
			cc, err := store.GetLogs(ctx, q)
			if err != nil {
				return nil, err
			}
			return &struct{ Next string }{cc.Next}, nil
		}()
		err = e
		if e == nil {
			next = cur.Next
		}
		second = func(token string) ([]string, error) {
			var q2 ledgerstore.GetLogsQuery
			if err := bunpaginate.UnmarshalCursor(token, &q2); err != nil {
				return nil, err
			}
			obs.SameOption = q2.PageSize == q.PageSize
			srv.Take()
			_, err := store.GetLogs(ctx, q2)
			return srv.Take(), err
		}
	}
	first := srv.Take()
	if err != nil {
		obs.Err = err.Error()
		return obs
	}
	obs.Accepted = true
	obs.HasNext = next != ""
	if next == "" {
		return obs
	}
	sqls2, err := second(next)
	if err != nil {
		obs.Err = "cursor: " + err.Error()
		return obs
	}
	obs.Decoded = true
	a, b := normalise(first), normalise(sqls2)
	obs.SameQuery = strings.Join(a, " ;; ") == strings.Join(b, " ;; ")
	if !obs.SameQuery {
		obs.SQL, obs.SQL2 = strings.Join(a, " ;; "), strings.Join(b, " ;; ")
	}
	return obs
}

func main() {
	mode := flag.String("mode", "", "cursors | sqlshape | scoping")
	in := flag.String("in", "", "cases")
	out := flag.String("out", "", "results")
	stats := flag.String("stats", "", "stats")
	sampleN := flag.Int("sample", 300, "sqlshape: lines also judged by TLC")
	seed := flag.Int64("seed", 1, "seed")
	flag.Parse()
	if *mode == "project" {
		modeProject(*in, *out, *stats)
		return
	}
	if *mode == "addrfilter" {
		modeAddrFilter(*in, *out, *stats)
		return
	}
	if *mode == "sqlshape" {
		modeSQLShape(*in, *out, *stats, *sampleN, *seed)
		return
	}
	f, err := os.Open(*in)
	if err != nil {
		fmt.Fprintln(os.Stderr, err)
		os.Exit(2)
	}
	of, _ := os.Create(*out)
	w := bufio.NewWriter(of)
	sc := bufio.NewScanner(f)
	sc.Buffer(make([]byte, 1<<20), 1<<24)
	n, accepted, withNext := 0, 0, 0
	var samples []any
	for sc.Scan() {
		var c fcase
		if err := json.Unmarshal(sc.Bytes(), &c); err != nil {
			fmt.Fprintln(os.Stderr, "bad case", err)
			os.Exit(2)
		}
		var line map[string]any
		switch *mode {
		case "cursors":
			o := runCursorCase(c)
			if o.Accepted {
				accepted++
			}
			if o.HasNext {
				withNext++
			}
			l := 0
			ej := exprJSON(c.Expr, &l, &c, false)
			if ej == nil {
				ej = map[string]any{}
			}
			line = map[string]any{"ep": c.Ep, "expr": ej, "opt": c.Opt, "obs": o}
		default:
			fmt.Fprintln(os.Stderr, "unknown mode")
			os.Exit(2)
		}
		n++
		if len(samples) < 2 && c.Expr.T == "and" && len(c.Expr.Items) == 2 {
			samples = append(samples, line)
		}
		b, _ := json.Marshal(line)
		w.Write(b)
		w.WriteByte('\n')
	}
	w.Flush()
	of.Close()
	st, _ := json.MarshalIndent(map[string]any{"cases": n, "accepted": accepted, "with_next_cursor": withNext, "samples": samples}, "", " ")
	os.WriteFile(*stats, st, 0o644)
}
