// batchconf drives the real log batcher (internal/engine/utils/batching over utils/job)
// along the schedules enumerated by Batcher.tla: "A" appends the next item, "R" lets the
// store call in progress return. The store is the harness: it records every batch it is
// handed and holds the call until released. Recorded: the batches in the order the store
// received them, every completion, every acknowledgement callback, in one sequence.
package main

import (
	"bufio"
	"context"
	"encoding/json"
	"flag"
	"fmt"
	"io"
	"os"
	"sync"
	"time"

	"github.com/formancehq/ledger/internal/engine/utils/batching"
	"github.com/formancehq/stack/libs/go-libs/logging"
	"github.com/sirupsen/logrus"
)

func quietLogger() *logrus.Logger {
	l := logrus.New()
	l.SetOutput(io.Discard)
	return l
}

type event struct {
	K string `json:"k"` // run | done | ack
	B []int  `json:"b"`
	I int    `json:"i"`
}

type bcase struct {
	Word    []string `json:"word"`
	Max     int      `json:"max"`
	Batches [][]int  `json:"batches"`
}

const patience = 2 * time.Second

func runWord(c bcase) map[string]any {
	var mu sync.Mutex
	events := []event{}
	rec := func(e event) {
		mu.Lock()
		if e.B == nil {
			e.B = []int{}
		}
		events = append(events, e)
		mu.Unlock()
	}
	started := make(chan struct{}, 1024)
	release := make(chan struct{})
	acks := make(chan struct{}, 4096)
	runner := func(ctx context.Context, items ...int) error {
		b := append([]int{}, items...)
		rec(event{K: "run", B: b})
		started <- struct{}{}
		<-release
		rec(event{K: "done", B: b})
		return nil
	}
	b := batching.NewBatcher(runner, 1, c.Max)
	ctx, cancel := context.WithCancel(logging.ContextWithLogger(context.Background(), logging.NewLogrus(quietLogger())))
	defer cancel()
	go func() {
		defer func() { _ = recover() }()
		b.Run(ctx)
	}()
	held, appended, handed, acked := 0, 0, 0, 0
	stalled := ""
	lastBatch := func() int {
		mu.Lock()
		defer mu.Unlock()
		for i := len(events) - 1; i >= 0; i-- {
			if events[i].K == "run" {
				return len(events[i].B)
			}
		}
		return 0
	}
	waitStart := func(why string) {
		select {
		case <-started:
			held++
			handed += lastBatch()
		case <-time.After(patience):
			if stalled == "" {
				stalled = why
			}
		}
	}
	doRelease := func() {
		n := lastBatch()
		release <- struct{}{}
		held--
		for i := 0; i < n; i++ {
			select {
			case <-acks:
				acked++
			case <-time.After(patience):
				if stalled == "" {
					stalled = "acknowledgement missing after the store returned"
				}
				i = n
			}
		}
		if appended-handed > 0 {
			waitStart("items are waiting, the worker is free, no batch reaches the store")
		}
	}
	for _, a := range c.Word {
		if stalled != "" {
			break
		}
		if a == "A" {
			appended++
			item := appended
			done := make(chan struct{})
			go func() {
				b.Append(item, func() { rec(event{K: "ack", I: item}); acks <- struct{}{} })
				close(done)
			}()
			select {
			case <-done:
			case <-time.After(patience):
				stalled = "Append does not return"
			}
			if held == 0 && stalled == "" {
				waitStart("an item was appended, the worker is free, no batch reaches the store")
			}
		} else if held > 0 {
			doRelease()
		}
	}
	for stalled == "" && held > 0 {
		doRelease()
	}
	// stray acknowledgements (duplicates) arrive late: give them a moment
	time.Sleep(2 * time.Millisecond)
	closed := make(chan struct{})
	go func() { defer func() { _ = recover() }(); b.Close(); close(closed) }()
	select {
	case <-closed:
	case <-time.After(patience):
	}
	mu.Lock()
	evs := append([]event{}, events...)
	mu.Unlock()
	return map[string]any{"word": c.Word, "max": c.Max, "batches": c.Batches, "events": evs, "stalled": stalled != "", "why": stalled, "n": appended}
}

func main() {
	in := flag.String("in", "", "schedules (Batcher.tla Emit)")
	out := flag.String("out", "", "observations")
	stats := flag.String("stats", "", "stats")
	flag.Parse()
	f, err := os.Open(*in)
	if err != nil {
		fmt.Fprintln(os.Stderr, err)
		os.Exit(2)
	}
	var cases []bcase
	sc := bufio.NewScanner(f)
	sc.Buffer(make([]byte, 1<<20), 1<<24)
	for sc.Scan() {
		var c bcase
		if err := json.Unmarshal(sc.Bytes(), &c); err != nil {
			fmt.Fprintln(os.Stderr, "bad case", err)
			os.Exit(2)
		}
		cases = append(cases, c)
	}
	results := make([]map[string]any, len(cases))
	sem := make(chan struct{}, 16)
	var wg sync.WaitGroup
	for i := range cases {
		wg.Add(1)
		sem <- struct{}{}
		go func(i int) {
			defer wg.Done()
			defer func() { <-sem }()
			results[i] = runWord(cases[i])
		}(i)
	}
	wg.Wait()
	of, _ := os.Create(*out)
	w := bufio.NewWriter(of)
	cut, items := 0, 0
	for _, r := range results {
		b, _ := json.Marshal(r)
		w.Write(b)
		w.WriteByte('\n')
		items += r["n"].(int)
		for _, e := range r["events"].([]event) {
			if e.K == "run" && len(e.B) == r["max"].(int) {
				cut++
			}
		}
	}
	w.Flush()
	of.Close()
	st, _ := json.MarshalIndent(map[string]any{"schedules": len(cases), "items": items, "full_batches": cut}, "", " ")
	os.WriteFile(*stats, st, 0o644)
}
