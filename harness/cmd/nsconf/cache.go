package main

import (
	"bufio"
	"context"
	"encoding/json"
	"fmt"
	"math/big"
	"os"
	"strings"
	"sync"

	ledger "github.com/formancehq/ledger/internal"
	"github.com/formancehq/ledger/internal/engine/command"
	"github.com/formancehq/ledger/internal/machine"
	"github.com/formancehq/ledger/internal/machine/script/compiler"
	"github.com/formancehq/ledger/internal/machine/vm"
	"github.com/formancehq/ledger/internal/machine/vm/program"
)

// C08, compilation cache: request sequences enumerated by Cache.tla are replayed on a real
// command.Compiler of the given capacity, sequentially and from concurrent goroutines;
// the program obtained for a text must behave like a fresh compilation of that text.

var cacheTexts = map[string]string{
	// t1 and t4 are equal up to white space - inside a string literal, where it is content
	"t1": "send [USD 3] (\n\tsource = @a\n\tdestination = @x\n)\nset_tx_meta(\"note\", \"a b\")\n",
	"t2": "send [USD 2] (\n\tsource = {\n\t\t@a\n\t\t@b\n\t}\n\tdestination = {\n\t\t1/2 to @x\n\t\tremaining to @y\n\t}\n)\n",
	"t3": "vars {\n\tmonetary $amt\n}\nsend [USD 7] - $amt (\n\tsource = @world\n\tdestination = @x\n)\nset_tx_meta(\"k\", [USD 7])\n",
	"t4": "send [USD 3] (\n  source = @a\n  destination = @x\n)\n\nset_tx_meta(\"note\", \"a  b\")\n",
}
var cacheVars = map[string]map[string]string{"t3": {"amt": "USD 3"}}

// t5 and t6: long scripts (over 4 KiB: one long string literal) of equal length that differ only in their last statement
func init() {
	pad := "set_tx_meta(\"pad\", \"" + strings.Repeat("a", 4300) + "\")\n"
	cacheTexts["t5"] = pad + "send [USD 2] (\n\tsource = @a\n\tdestination = @x\n)\n"
	cacheTexts["t6"] = pad + "send [USD 3] (\n\tsource = @a\n\tdestination = @y\n)\n"
}

func runProgram(p *program.Program, name string) string {
	defer func() { _ = recover() }()
	m := vm.NewMachine(*p)
	m.Printer = func(c chan machine.Value) {
		for range c {
		}
	}
	v := map[string]string{}
	for k, x := range cacheVars[name] {
		v[k] = x
	}
	if err := m.SetVarsFromJSON(v); err != nil {
		return "err:" + err.Error()
	}
	store := storeOf(map[string]int64{"a": 5, "b": 3}, big.NewInt(1))
	if _, _, err := m.ResolveResources(context.Background(), store); err != nil {
		return "err:" + err.Error()
	}
	if err := m.ResolveBalances(context.Background(), store); err != nil {
		return "err:" + err.Error()
	}
	res, err := vm.Run(m, ledger.RunScript{})
	if err != nil {
		return "err:" + err.Error()
	}
	b, _ := json.Marshal([]any{res.Postings, res.Metadata, res.AccountMetadata})
	return string(b)
}

func runCache(in, out, stats string) {
	f, err := os.Open(in)
	if err != nil {
		fmt.Fprintln(os.Stderr, err)
		os.Exit(2)
	}
	fresh := map[string]string{}
	for name, text := range cacheTexts {
		p, err := compiler.Compile(text)
		if err != nil {
			fmt.Fprintln(os.Stderr, "cache text does not compile:", name, err)
			os.Exit(2)
		}
		fresh[name] = runProgram(p, name)
	}
	of, _ := os.Create(out)
	w := bufio.NewWriter(of)
	sc := bufio.NewScanner(f)
	n, gets := 0, 0
	var samples []any
	for sc.Scan() {
		var c struct {
			Cap  int      `json:"cap"`
			Reqs []string `json:"reqs"`
		}
		if err := json.Unmarshal(sc.Bytes(), &c); err != nil {
			os.Exit(2)
		}
		// sequential replay
		comp := command.NewCompiler(c.Cap)
		seqOK := true
		for _, name := range c.Reqs {
			p, err := comp.Compile(cacheTexts[name])
			gets++
			if err != nil || runProgram(p, name) != fresh[name] {
				seqOK = false
			}
		}
		// concurrent replay: every goroutine issues the whole sequence on one shared Compiler
		comp2 := command.NewCompiler(c.Cap)
		var mu sync.Mutex
		concOK := true
		var wg sync.WaitGroup
		for g := 0; g < 6; g++ {
			wg.Add(1)
			go func(g int) {
				defer wg.Done()
				defer func() {
					if e := recover(); e != nil {
						mu.Lock()
						concOK = false
						mu.Unlock()
					}
				}()
				for r := 0; r < 4; r++ {
					for i := range c.Reqs {
						name := c.Reqs[(i+g)%len(c.Reqs)]
						p, err := comp2.Compile(cacheTexts[name])
						if err != nil || runProgram(p, name) != fresh[name] {
							mu.Lock()
							concOK = false
							mu.Unlock()
						}
					}
				}
			}(g)
		}
		wg.Wait()
		gets += 24 * len(c.Reqs)
		line := map[string]any{"cap": c.Cap, "reqs": c.Reqs, "sequentialSameAsFresh": seqOK, "concurrentSameAsFresh": concOK}
		if len(samples) < 2 {
			samples = append(samples, line)
		}
		b, _ := json.Marshal(line)
		w.Write(b)
		w.WriteByte('\n')
		n++
	}
	w.Flush()
	of.Close()
	st, _ := json.MarshalIndent(map[string]any{"sequences": n, "gets": gets, "samples": samples}, "", " ")
	os.WriteFile(stats, st, 0o644)
}
