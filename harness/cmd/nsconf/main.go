// nsconf binds spec/Numscript.tla to the real Numscript pipeline
// (compiler.Compile -> vm.NewMachine -> SetVarsFromJSON -> ResolveResources ->
// ResolveBalances -> Execute) for C01 C03 C08 C12.
//
// Every case enumerated (and evaluated) by TLC - an abstract syntax tree, a
// balance table, the outcome the source text defines - is rendered to Numscript
// text, executed by the real code under recover and a time-out, and written
// back with what the implementation did. NumscriptObs.tla (TLC) judges the
// results. Cases without portions are additionally executed with every amount
// multiplied by 2^70 (values beyond 64 bits, beyond TLC's integers).
package main

import (
	"bytes"
	"context"
	"encoding/json"
	"errors"
	"flag"
	"fmt"
	"math/big"
	"math/rand"
	"os"
	"runtime"
	"sort"
	"strings"
	"sync"
	"time"

	"bufio"

	ledger "github.com/formancehq/ledger/internal"
	"github.com/formancehq/ledger/internal/engine/command"
	"github.com/formancehq/ledger/internal/machine"
	"github.com/formancehq/ledger/internal/machine/script/compiler"
	"github.com/formancehq/ledger/internal/machine/vm"
	"github.com/formancehq/stack/libs/go-libs/metadata"
)

const asset = "USD"

type Por struct {
	N int64 `json:"n"`
	D int64 `json:"d"`
}

type Src struct {
	T     string `json:"t"`
	A     string `json:"a"`
	Od    int64  `json:"od"`
	Cap   int64  `json:"cap"`
	Ss    []Src  `json:"ss"`
	Ports []Por  `json:"ports"`
}

type Dst struct {
	T     string  `json:"t"`
	A     string  `json:"a"`
	Caps  []int64 `json:"caps"`
	Ports []Por   `json:"ports"`
	Ds    []Dst   `json:"ds"`
}

type SendStmt struct {
	Amt int64 `json:"amt"`
	Src Src   `json:"src"`
	Dst Dst   `json:"dst"`
}

type Posting struct {
	Src string `json:"src"`
	Dst string `json:"dst"`
	Amt int64  `json:"amt"`
}

type Outcome struct {
	Class string    `json:"class"`
	Posts []Posting `json:"posts"`
}

type Case struct {
	Sends []SendStmt       `json:"sends"`
	Bal   map[string]int64 `json:"bal"`
	Exp   Outcome          `json:"exp"`
}

type Result struct {
	Case
	Real     Outcome `json:"real"`
	ScaledOk bool    `json:"scaledOk"`
	Scaled   string  `json:"scaled"`
	// outcomes of the scaled executions that differ from the unscaled one, divided
	// back by their factor (only those that divide exactly), judged like Real
	ScaledBad     []Outcome `json:"scaledBad"`
	ScaledInexact bool      `json:"scaledInexact"`
	Text          string    `json:"text"`
	Again         bool      `json:"againSame"`
}

// ---- rendering ------------------------------------------------------------

func mon(n int64, k *big.Int) string {
	v := new(big.Int).Mul(big.NewInt(n), k)
	return fmt.Sprintf("[%s %s]", asset, v.String())
}

func por(p Por) string {
	if p.N < 0 {
		return "remaining"
	}
	return fmt.Sprintf("%d/%d", p.N, p.D)
}

func indent(s string) string { return strings.ReplaceAll(s, "\n", "\n\t") }

func srcText(s Src, k *big.Int) string {
	switch s.T {
	case "acct":
		out := "@" + s.A
		switch {
		case s.Od == -2:
			out += " allowing unbounded overdraft"
		case s.Od >= 0:
			out += " allowing overdraft up to " + mon(s.Od, k)
		}
		return out
	case "max":
		return "max " + mon(s.Cap, k) + " from " + srcText(s.Ss[0], k)
	case "seq":
		var sb strings.Builder
		sb.WriteString("{\n")
		for _, x := range s.Ss {
			sb.WriteString("\t" + indent(srcText(x, k)) + "\n")
		}
		sb.WriteString("}")
		return sb.String()
	case "allot":
		var sb strings.Builder
		sb.WriteString("{\n")
		for i, x := range s.Ss {
			sb.WriteString("\t" + por(s.Ports[i]) + " from " + indent(srcText(x, k)) + "\n")
		}
		sb.WriteString("}")
		return sb.String()
	}
	return "?"
}

func kd(d Dst, k *big.Int) string {
	if d.T == "kept" {
		return "kept"
	}
	return "to " + dstText(d, k)
}

func dstText(d Dst, k *big.Int) string {
	switch d.T {
	case "acct":
		return "@" + d.A
	case "seq":
		var sb strings.Builder
		sb.WriteString("{\n")
		for i, c := range d.Caps {
			sb.WriteString("\tmax " + mon(c, k) + " " + indent(kd(d.Ds[i], k)) + "\n")
		}
		sb.WriteString("\tremaining " + indent(kd(d.Ds[len(d.Ds)-1], k)) + "\n}")
		return sb.String()
	case "allot":
		var sb strings.Builder
		sb.WriteString("{\n")
		for i, x := range d.Ds {
			sb.WriteString("\t" + por(d.Ports[i]) + " " + indent(kd(x, k)) + "\n")
		}
		sb.WriteString("}")
		return sb.String()
	}
	return "?"
}

func render(sends []SendStmt, k *big.Int) string {
	var sb strings.Builder
	for _, s := range sends {
		amt := mon(s.Amt, k)
		if s.Amt < 0 {
			amt = "[" + asset + " *]"
		}
		fmt.Fprintf(&sb, "send %s (\n\tsource = %s\n\tdestination = %s\n)\n", amt, indent(srcText(s.Src, k)), indent(dstText(s.Dst, k)))
	}
	return sb.String()
}

// ---- execution --------------------------------------------------------------

func classify(err error) string {
	var ce *compiler.CompileErrorList
	switch {
	case err == nil:
		return "ok"
	case errors.As(err, &ce):
		return "compile-error"
	case machine.IsInsufficientFundError(err):
		return "insufficient"
	case errors.Is(err, machine.ErrScriptFailed):
		return "failed"
	case errors.Is(err, &machine.ErrInvalidScript{}):
		return "invalid-script"
	case errors.Is(err, &machine.ErrNegativeAmount{}):
		return "negative-amount"
	case errors.Is(err, &machine.ErrMissingMetadata{}):
		return "missing-metadata"
	case errors.Is(err, &machine.ErrMetadataOverride{}):
		return "metadata-override"
	case errors.Is(err, &machine.ErrInvalidVars{}):
		return "invalid-vars"
	case strings.Contains(err.Error(), "negative amount"):
		return "negative-amount"
	}
	return "other:" + err.Error()
}

// phase gives errors without a class of their own the class of the phase that reported them
func phase(class, fallback string) string {
	if strings.HasPrefix(class, "other:") {
		return fallback
	}
	return class
}

var sharedCompiler = command.NewCompiler(4096)

type rawOutcome struct {
	class string
	posts []ledger.Posting
	meta  metadata.Metadata
	ameta map[string]metadata.Metadata
}

func execute(text string, vars map[string]string, store vm.Store) (out rawOutcome) {
	return executeWithMeta(text, vars, store, nil)
}

func executeWithMeta(text string, vars map[string]string, store vm.Store, scriptMeta metadata.Metadata) (out rawOutcome) {
	done := make(chan rawOutcome, 1)
	go func() {
		defer func() {
			if e := recover(); e != nil {
				done <- rawOutcome{class: "panic:" + fmt.Sprint(e)}
			}
		}()
		// through the engine's compilation cache: a text executed twice runs the same cached program
		prog, err := sharedCompiler.Compile(text)
		if err != nil {
			_ = err.Error() // the engine reports the message to the client: rendering it must not crash either
			done <- rawOutcome{class: "compile-error"}
			return
		}
		m := vm.NewMachine(*prog)
		m.Printer = func(c chan machine.Value) {
			for range c {
			}
		}
		if err := m.SetVarsFromJSON(vars); err != nil {
			done <- rawOutcome{class: classify(err)}
			return
		}
		if _, _, err := m.ResolveResources(context.Background(), store); err != nil {
			done <- rawOutcome{class: phase(classify(err), "resolve-error")}
			return
		}
		if err := m.ResolveBalances(context.Background(), store); err != nil {
			done <- rawOutcome{class: phase(classify(err), "resolve-error")}
			return
		}
		res, err := vm.Run(m, ledger.RunScript{Script: ledger.Script{Plain: text, Vars: vars}, Metadata: scriptMeta})
		if err != nil {
			done <- rawOutcome{class: classify(err)}
			return
		}
		done <- rawOutcome{class: "ok", posts: res.Postings, meta: res.Metadata, ameta: res.AccountMetadata}
	}()
	select {
	case o := <-done:
		return o
	case <-time.After(10 * time.Second):
		return rawOutcome{class: "hang"}
	}
}

func storeOf(bal map[string]int64, k *big.Int) vm.StaticStore {
	st := vm.StaticStore{}
	for a, v := range bal {
		st[a] = &vm.AccountWithBalances{
			Account:  ledger.Account{Address: a, Metadata: metadata.Metadata{}},
			Balances: map[string]*big.Int{asset: new(big.Int).Mul(big.NewInt(v), k)},
		}
	}
	return st
}

// normalise: drop zero postings, merge adjacent postings with the same endpoints
// (representation choices of Funding.Concat / Take(0); fixed in DESIGN.md)
func normalise(ps []ledger.Posting, k *big.Int) ([]Posting, bool) {
	out := []Posting{}
	exact := true
	var last *big.Int
	for _, p := range ps {
		if p.Amount.Sign() == 0 {
			continue
		}
		q, r := new(big.Int).QuoRem(p.Amount, k, new(big.Int))
		if r.Sign() != 0 || !q.IsInt64() {
			exact = false
		}
		n := len(out)
		if n > 0 && out[n-1].Src == p.Source && out[n-1].Dst == p.Destination && p.Source != p.Destination {
			last.Add(last, q)
			out[n-1].Amt = last.Int64()
			continue
		}
		last = new(big.Int).Set(q)
		out = append(out, Posting{Src: p.Source, Dst: p.Destination, Amt: q.Int64()})
	}
	return out, exact
}

func hasAllot(c Case) bool {
	var ds func(d Dst) bool
	ds = func(d Dst) bool {
		if d.T == "allot" {
			return true
		}
		for _, x := range d.Ds {
			if ds(x) {
				return true
			}
		}
		return false
	}
	for _, s := range c.Sends {
		if s.Src.T == "allot" || ds(s.Dst) {
			return true
		}
	}
	return false
}

func outcomeOf(r rawOutcome, k *big.Int) (Outcome, bool) {
	class := r.class
	posts, exact := normalise(r.posts, k)
	if class == "ok" && len(posts) == 0 {
		class = "no-postings"
	}
	if class != "ok" {
		posts = []Posting{}
	}
	return Outcome{Class: class, Posts: posts}, exact
}

func same(a, b Outcome) bool {
	if a.Class != b.Class || len(a.Posts) != len(b.Posts) {
		return false
	}
	for i := range a.Posts {
		if a.Posts[i] != b.Posts[i] {
			return false
		}
	}
	return true
}

var scaleFactors = func() []*big.Int {
	p := func(n uint) *big.Int { return new(big.Int).Lsh(big.NewInt(1), n) }
	return []*big.Int{p(70), p(62), new(big.Int).Sub(p(63), big.NewInt(1)), p(61), new(big.Int).Add(p(64), big.NewInt(7))}
}()

func runCase(c Case) Result {
	one := big.NewInt(1)
	text := render(c.Sends, one)
	raw := execute(text, map[string]string{}, storeOf(c.Bal, one))
	real, _ := outcomeOf(raw, one)
	res := Result{Case: c, Real: real, ScaledOk: true, Text: text, ScaledBad: []Outcome{}}
	// a second execution of the same text must give the same outcome
	raw2 := execute(text, map[string]string{}, storeOf(c.Bal, one))
	real2, _ := outcomeOf(raw2, one)
	res.Again = same(real, real2)
	if !hasAllot(c) && !strings.HasPrefix(real.Class, "panic") && real.Class != "hang" {
		// every amount multiplied by K: the outcome must be the same postings times K.
		// The factors sit around the 2^63 / 2^64 boundaries so that some amounts of a
		// case fit a machine word and others (or their sums) do not.
		for _, k := range scaleFactors {
			rawS := execute(render(c.Sends, k), map[string]string{}, storeOf(c.Bal, k))
			scaled, exact := outcomeOf(rawS, k)
			if !(exact && same(scaled, real)) {
				res.ScaledOk = false
				b, _ := json.Marshal(scaled)
				res.Scaled = "x" + k.String() + ": " + string(b)
				if exact {
					res.ScaledBad = append(res.ScaledBad, scaled)
				} else {
					res.ScaledInexact = true
				}
			}
		}
	}
	return res
}

func main() {
	in := flag.String("in", "", "cases (ndjson written by TLC)")
	out := flag.String("out", "", "results (ndjson)")
	stats := flag.String("stats", "", "stats (json)")
	corruptN := flag.Int("corrupt", 0, "instead of the cases themselves, run this many corrupted renderings of their texts")
	seed := flag.Int64("seed", 1, "seed of the corruptions")
	cacheMode := flag.Bool("cache", false, "replay Cache.tla request sequences on command.Compiler")
	flag.Parse()
	if *cacheMode {
		runCache(*in, *out, *stats)
		return
	}
	f, err := os.Open(*in)
	if err != nil {
		fmt.Fprintln(os.Stderr, err)
		os.Exit(2)
	}
	var cases []Case
	var progs []ProgCase
	sc := bufio.NewScanner(f)
	sc.Buffer(make([]byte, 1<<20), 1<<26)
	for sc.Scan() {
		if bytes.Contains(sc.Bytes(), []byte(`"prog":`)) {
			var pc ProgCase
			if err := json.Unmarshal(sc.Bytes(), &pc); err != nil {
				fmt.Fprintln(os.Stderr, "bad program case:", err)
				os.Exit(2)
			}
			progs = append(progs, pc)
			continue
		}
		var c Case
		if err := json.Unmarshal(sc.Bytes(), &c); err != nil {
			fmt.Fprintln(os.Stderr, "bad case:", err)
			os.Exit(2)
		}
		cases = append(cases, c)
	}
	if *corruptN > 0 {
		runCorrupt(cases, progs, *corruptN, *seed, *out, *stats)
		return
	}
	if len(progs) > 0 {
		runProgs(progs, *out, *stats)
		return
	}
	results := make([]Result, len(cases))
	var wg sync.WaitGroup
	nw := runtime.NumCPU()
	ch := make(chan int, 1024)
	for w := 0; w < nw; w++ {
		wg.Add(1)
		go func() {
			defer wg.Done()
			for i := range ch {
				results[i] = runCase(cases[i])
			}
		}()
	}
	for i := range cases {
		ch <- i
	}
	close(ch)
	wg.Wait()
	of, err := os.Create(*out)
	if err != nil {
		os.Exit(2)
	}
	w := bufio.NewWriterSize(of, 1<<20)
	classes := map[string]int{}
	texts := map[string]bool{}
	mismatch := 0
	for _, r := range results {
		b, _ := json.Marshal(r)
		w.Write(b)
		w.WriteByte('\n')
		classes[r.Real.Class]++
		texts[r.Text] = true
		if !same(r.Real, r.Exp) {
			mismatch++
		}
	}
	w.Flush()
	of.Close()
	keys := []string{}
	for k := range classes {
		keys = append(keys, k)
	}
	sort.Strings(keys)
	st := map[string]any{"cases": len(cases), "distinct_programs": len(texts), "classes": classes, "mismatch_with_reference": mismatch}
	if len(results) > 0 {
		st["samples"] = []any{map[string]any{"text": results[0].Text, "bal": results[0].Bal, "real": results[0].Real},
			map[string]any{"text": results[len(results)/2].Text, "bal": results[len(results)/2].Bal, "real": results[len(results)/2].Real}}
	}
	b, _ := json.MarshalIndent(st, "", " ")
	os.WriteFile(*stats, b, 0o644)
}

func runProgs(progs []ProgCase, out, stats string) {
	results := make([]map[string]any, len(progs))
	var wg sync.WaitGroup
	ch := make(chan int, 1024)
	for w := 0; w < runtime.NumCPU(); w++ {
		wg.Add(1)
		go func() {
			defer wg.Done()
			for i := range ch {
				results[i] = runProg(progs[i])
			}
		}()
	}
	for i := range progs {
		ch <- i
	}
	close(ch)
	wg.Wait()
	of, err := os.Create(out)
	if err != nil {
		os.Exit(2)
	}
	w := bufio.NewWriterSize(of, 1<<20)
	classes := map[string]int{}
	texts := map[string]bool{}
	for _, r := range results {
		b, _ := json.Marshal(r)
		w.Write(b)
		w.WriteByte('\n')
		classes[r["real"].(ProgOutcome).Class]++
		texts[r["text"].(string)] = true
	}
	w.Flush()
	of.Close()
	st := map[string]any{"cases": len(progs), "distinct_programs": len(texts), "classes": classes, "mismatch_with_reference": 0}
	if len(results) > 0 {
		st["samples"] = []any{map[string]any{"text": results[len(results)/3]["text"], "real": results[len(results)/3]["real"]}}
	}
	b, _ := json.MarshalIndent(st, "", " ")
	os.WriteFile(stats, b, 0o644)
}

// runCorrupt executes corrupted renderings; the result lines carry exp = real so that only
// the C12 predicates (no panic, no hang, defined class, repeatable) can fail on them.
func runCorrupt(cases []Case, progs []ProgCase, n int, seed int64, out, stats string) {
	type job struct {
		text string
		vars map[string]string
		bal  map[string]int64
		meta []MetaEntry
	}
	rng := rand.New(rand.NewSource(seed))
	var jobs []job
	one := big.NewInt(1)
	for len(jobs) < n && (len(cases) > 0 || len(progs) > 0) {
		if len(progs) > 0 && (len(cases) == 0 || rng.Intn(2) == 0) {
			pc := progs[rng.Intn(len(progs))]
			text, vars := renderProg(pc.Prog)
			if rng.Intn(4) == 0 && len(vars) > 0 { // corrupt a supplied variable value instead of the text
				for k := range vars {
					vars[k] = oddLiterals[rng.Intn(len(oddLiterals))]
					break
				}
			} else {
				text = corrupt(text, rng)
				if rng.Intn(3) == 0 {
					text = corrupt(text, rng)
				}
			}
			jobs = append(jobs, job{text, vars, pc.Bal, pc.Meta})
		} else {
			c := cases[rng.Intn(len(cases))]
			text := corrupt(render(c.Sends, one), rng)
			if rng.Intn(3) == 0 {
				text = corrupt(text, rng)
			}
			jobs = append(jobs, job{text, map[string]string{}, c.Bal, nil})
		}
	}
	results := make([]map[string]any, len(jobs))
	var wg sync.WaitGroup
	ch := make(chan int, 1024)
	for w := 0; w < runtime.NumCPU(); w++ {
		wg.Add(1)
		go func() {
			defer wg.Done()
			for i := range ch {
				j := jobs[i]
				run := func() Outcome {
					v := map[string]string{}
					for k, x := range j.vars {
						v[k] = x
					}
					o, _ := outcomeOf(execute(j.text, v, progStore(j.bal, j.meta)), one)
					return o
				}
				a, b := run(), run()
				results[i] = map[string]any{"text": j.text, "vars": j.vars, "bal": j.bal, "sends": []SendStmt{}, "exp": a, "real": a,
					"againSame": same(a, b), "scaledOk": true, "scaledBad": []Outcome{}, "scaledInexact": false, "kinds": "corrupted-text"}
			}
		}()
	}
	for i := range jobs {
		ch <- i
	}
	close(ch)
	wg.Wait()
	of, err := os.Create(out)
	if err != nil {
		os.Exit(2)
	}
	w := bufio.NewWriterSize(of, 1<<20)
	classes := map[string]int{}
	texts := map[string]bool{}
	for _, r := range results {
		b, _ := json.Marshal(r)
		w.Write(b)
		w.WriteByte('\n')
		classes[strings.SplitN(r["real"].(Outcome).Class, ":", 2)[0]]++
		texts[r["text"].(string)] = true
	}
	w.Flush()
	of.Close()
	st := map[string]any{"cases": len(jobs), "distinct_programs": len(texts), "classes": classes, "mismatch_with_reference": 0}
	if len(results) > 2 {
		st["samples"] = []any{map[string]any{"text": results[1]["text"], "real": results[1]["real"]}, map[string]any{"text": results[2]["text"], "real": results[2]["real"]}}
	}
	b, _ := json.MarshalIndent(st, "", " ")
	os.WriteFile(stats, b, 0o644)
}
