// nsconf binds spec/Numscript.tla to the real Numscript pipeline
// (compiler.Compile -> vm.NewMachine -> SetVarsFromJSON -> ResolveResources ->
// ResolveBalances -> Execute) for C01 C03 C08 C12.
//
// Every case enumerated (and evaluated) by TLC - an abstract syntax tree, a
// balance table, the outcome the source text defines - is rendered to Numscript
// text, executed by the real code under recover and a time-out, and written
// back with what the implementation did. NumscriptObs.tla (TLC) judges the
// results. Cases without portions are additionally executed with every amount
// multiplied by 2^70 (values beyond 64 bits, beyond TLC's integers).
package main

import (
	"bytes"
	"context"
	"encoding/json"
	"errors"
	"flag"
	"fmt"
	"math/big"
	"math/rand"
	"os"
	"runtime"
	"sort"
	"strings"
	"sync"
	"time"

	"bufio"

	ledger "github.com/formancehq/ledger/internal"
	"github.com/formancehq/ledger/internal/engine/command"
	"github.com/formancehq/ledger/internal/machine"
	"github.com/formancehq/ledger/internal/machine/script/compiler"
	"github.com/formancehq/ledger/internal/machine/vm"
	"github.com/formancehq/stack/libs/go-libs/metadata"
)

const asset = "USD"

type Por struct {
	N int64 `json:"n"`
	D int64 `json:"d"`
}

type Src struct {
	T     string `json:"t"`
	A     string `json:"a"`
	Od    int64  `json:"od"`
	Cap   int64  `json:"cap"`
	Ss    []Src  `json:"ss"`
	Ports []Por  `json:"ports"`
}

type Dst struct {
	T     string  `json:"t"`
	A     string  `json:"a"`
	Caps  []int64 `json:"caps"`
	Ports []Por   `json:"ports"`
	Ds    []Dst   `json:"ds"`
}

type SendStmt struct {
	Amt int64 `json:"amt"`
	Src Src   `json:"src"`
	Dst Dst   `json:"dst"`
}

type Posting struct {
	Src string `json:"src"`
	Dst string `json:"dst"`
	Amt int64  `json:"amt"`
}

type Outcome struct {
	Class string    `json:"class"`
	Posts []Posting `json:"posts"`
}

type Case struct {
	Sends []SendStmt       `json:"sends"`
	Bal   map[string]int64 `json:"bal"`
	Exp   Outcome          `json:"exp"`
	// K > 0: ExpK is what the source defines for the case with every amount multiplied by K, a common
	// multiple of the portion denominators (so that amounts K*u split into portions without remainders)
	K    int64   `json:"k"`
	ExpK Outcome `json:"expK"`
	// Binding "collide": each send lives in its own asset and account space, named so that
	// account+asset concatenations coincide across sends
	Binding string `json:"binding"`
}

type Result struct {
	Case
	Real     Outcome `json:"real"`
	ScaledOk bool    `json:"scaledOk"`
	Scaled   string  `json:"scaled"`
	// outcomes of the scaled executions that differ from the unscaled one, divided
	// back by their factor (only those that divide exactly), judged like Real
	ScaledBad     []Outcome `json:"scaledBad"`
	ScaledInexact bool      `json:"scaledInexact"`
	Text          string    `json:"text"`
	Again         bool      `json:"againSame"`
	// other spellings of the same program (portions as percentages, overdraft bounds as differences,
	// the asset passed as a variable - twice, with two assets, through the compilation cache):
	// the outcomes that differ from Real, judged like Real; Spelling names the first one that differs
	SpellingBad []Outcome `json:"spellingBad"`
	Spelling    string    `json:"spelling"`
	// executions at K*u (u around 2^55): outcomes divided by u that differ from ExpK
	UnitBad     []Outcome `json:"unitBad"`
	UnitInexact bool      `json:"unitInexact"`
	Unit        string    `json:"unit"`
}

// ---- rendering ------------------------------------------------------------

// style: how an abstract program is spelled
type style struct {
	k        *big.Int
	pct      bool   // portions as percentages, where the decimal expansion is finite
	odExpr   bool   // overdraft bounds as a difference of two monetaries
	assetVar bool   // amounts as [$as N], the asset being a variable
	lead0    bool   // amounts written with leading zeros ([USD 007])
	collide  bool   // send i uses asset collideAssets[i] and accounts renamed by collideName
	send     int    // index of the send being rendered
	pv       *pvars // portions given by variables (negative denominator), collected while rendering
}

type pvars struct {
	decls []string
	vals  map[string]string
}

var collideAssets = []string{"USD", "SD"}

// account names of send i under the colliding binding: send 1's accounts get a trailing "U", so
// that e.g. ("a", "USD") and ("aU", "SD") concatenate to the same string
func (st style) acct(a string) string {
	if st.collide && st.send == 1 && a != "world" {
		return collideName(a)
	}
	return a
}

// send 1 of a colliding case uses the symbols b / y where send 0 uses a / x: they become "aU" / "xU"
func collideName(a string) string {
	switch a {
	case "b":
		return "aU"
	case "y":
		return "xU"
	}
	return a + "U"
}

func collideSymbol(name string) string {
	switch name {
	case "aU":
		return "b"
	case "xU":
		return "y"
	}
	return strings.TrimSuffix(name, "U")
}

func (st style) assetName() string {
	if st.collide {
		return collideAssets[st.send%2]
	}
	return asset
}

func mon(n int64, st style) string {
	v := new(big.Int).Mul(big.NewInt(n), st.k)
	digits := v.String()
	if st.lead0 && v.Sign() >= 0 {
		digits = "00" + digits
	}
	if st.assetVar {
		return fmt.Sprintf("[$as %s]", digits)
	}
	return fmt.Sprintf("[%s %s]", st.assetName(), digits)
}

// percent spelling of n/d when n*100/d has a finite decimal expansion
func percent(p Por) (string, bool) {
	r := new(big.Rat).SetFrac(big.NewInt(p.N*100), big.NewInt(p.D))
	den := new(big.Int).Set(r.Denom())
	for _, f := range []int64{2, 5} {
		for new(big.Int).Mod(den, big.NewInt(f)).Sign() == 0 {
			den.Div(den, big.NewInt(f))
		}
	}
	if den.Cmp(big.NewInt(1)) != 0 {
		return "", false
	}
	txt := r.FloatString(12)
	txt = strings.TrimRight(txt, "0")
	txt = strings.TrimSuffix(txt, ".")
	return txt + "%", true
}

func por(p Por, st style) string {
	if p.N < 0 {
		return "remaining"
	}
	if p.D < 0 {
		// a portion variable; its value is always written as a fraction
		name := fmt.Sprintf("p%d", len(st.pv.decls))
		st.pv.decls = append(st.pv.decls, "\tportion $"+name+"\n")
		st.pv.vals[name] = fmt.Sprintf("%d/%d", p.N, -p.D)
		return "$" + name
	}
	if st.pct {
		if t, ok := percent(p); ok {
			return t
		}
	}
	return fmt.Sprintf("%d/%d", p.N, p.D)
}

func indent(s string) string { return strings.ReplaceAll(s, "\n", "\n\t") }

func srcText(s Src, st style) string {
	switch s.T {
	case "acct":
		out := "@" + st.acct(s.A)
		switch {
		case s.Od == -2:
			out += " allowing unbounded overdraft"
		case s.Od >= 0 && st.odExpr:
			out += " allowing overdraft up to " + mon(s.Od+5, st) + " - " + mon(5, st)
		case s.Od >= 0:
			out += " allowing overdraft up to " + mon(s.Od, st)
		}
		return out
	case "max":
		return "max " + mon(s.Cap, st) + " from " + srcText(s.Ss[0], st)
	case "seq":
		var sb strings.Builder
		sb.WriteString("{\n")
		for _, x := range s.Ss {
			sb.WriteString("\t" + indent(srcText(x, st)) + "\n")
		}
		sb.WriteString("}")
		return sb.String()
	case "allot":
		var sb strings.Builder
		sb.WriteString("{\n")
		for i, x := range s.Ss {
			sb.WriteString("\t" + por(s.Ports[i], st) + " from " + indent(srcText(x, st)) + "\n")
		}
		sb.WriteString("}")
		return sb.String()
	}
	return "?"
}

func kd(d Dst, st style) string {
	if d.T == "kept" {
		return "kept"
	}
	return "to " + dstText(d, st)
}

func dstText(d Dst, st style) string {
	switch d.T {
	case "acct":
		return "@" + st.acct(d.A)
	case "seq":
		var sb strings.Builder
		sb.WriteString("{\n")
		for i, c := range d.Caps {
			sb.WriteString("\tmax " + mon(c, st) + " " + indent(kd(d.Ds[i], st)) + "\n")
		}
		sb.WriteString("\tremaining " + indent(kd(d.Ds[len(d.Ds)-1], st)) + "\n}")
		return sb.String()
	case "allot":
		var sb strings.Builder
		sb.WriteString("{\n")
		for i, x := range d.Ds {
			sb.WriteString("\t" + por(d.Ports[i], st) + " " + indent(kd(x, st)) + "\n")
		}
		sb.WriteString("}")
		return sb.String()
	}
	return "?"
}

func render(sends []SendStmt, k *big.Int) string { return renderStyled(sends, style{k: k}) }

func renderStyled(sends []SendStmt, st style) string {
	t, _ := renderFull(sends, st)
	return t
}

// renderFull: the text and the values of the variables it declares for portions
func renderFull(sends []SendStmt, st style) (string, map[string]string) {
	var sb strings.Builder
	st.pv = &pvars{vals: map[string]string{}}
	for i, s := range sends {
		st.send = i
		amt := mon(s.Amt, st)
		if s.Amt < 0 {
			amt = "[" + st.assetName() + " *]"
			if st.assetVar {
				amt = "[$as *]"
			}
		}
		fmt.Fprintf(&sb, "send %s (\n\tsource = %s\n\tdestination = %s\n)\n", amt, indent(srcText(s.Src, st)), indent(dstText(s.Dst, st)))
	}
	decls := strings.Join(st.pv.decls, "")
	if st.assetVar {
		decls = "\tasset $as\n" + decls
	}
	if decls != "" {
		return "vars {\n" + decls + "}\n" + sb.String(), st.pv.vals
	}
	return sb.String(), st.pv.vals
}

func withVars(base map[string]string, more map[string]string) map[string]string {
	out := map[string]string{}
	for k, v := range base {
		out[k] = v
	}
	for k, v := range more {
		out[k] = v
	}
	return out
}

// ---- execution --------------------------------------------------------------

func classify(err error) string {
	var ce *compiler.CompileErrorList
	switch {
	case err == nil:
		return "ok"
	case errors.As(err, &ce):
		return "compile-error"
	case machine.IsInsufficientFundError(err):
		return "insufficient"
	case errors.Is(err, machine.ErrScriptFailed):
		return "failed"
	case errors.Is(err, &machine.ErrInvalidScript{}):
		return "invalid-script"
	case errors.Is(err, &machine.ErrNegativeAmount{}):
		return "negative-amount"
	case errors.Is(err, &machine.ErrMissingMetadata{}):
		return "missing-metadata"
	case errors.Is(err, &machine.ErrMetadataOverride{}):
		return "metadata-override"
	case errors.Is(err, &machine.ErrInvalidVars{}):
		return "invalid-vars"
	case strings.Contains(err.Error(), "negative amount"):
		return "negative-amount"
	}
	return "other:" + err.Error()
}

// phase gives errors without a class of their own the class of the phase that reported them
func phase(class, fallback string) string {
	if strings.HasPrefix(class, "other:") {
		return fallback
	}
	return class
}

var sharedCompiler = command.NewCompiler(4096)

type rawOutcome struct {
	class string
	posts []ledger.Posting
	meta  metadata.Metadata
	ameta map[string]metadata.Metadata
}

func execute(text string, vars map[string]string, store vm.Store) (out rawOutcome) {
	return executeWithMeta(text, vars, store, nil)
}

// An execution leaves nothing behind: the balances of the store it was given are what they were (the VM
// works on its own numbers), and the package-level zeros are still zero. What it leaves is reported as the
// outcome class of that execution (and repaired, so that the damage is attributed once).
func executeWithMeta(text string, vars map[string]string, store vm.Store, scriptMeta metadata.Metadata) (out rawOutcome) {
	var before map[string]map[string]string
	st, isStatic := store.(vm.StaticStore)
	if isStatic {
		before = map[string]map[string]string{}
		for a, acc := range st {
			before[a] = map[string]string{}
			for as, v := range acc.Balances {
				before[a][as] = v.String()
			}
		}
	}
	out = executeRaw(text, vars, store, scriptMeta)
	if strings.HasPrefix(out.class, "panic") || out.class == "hang" {
		return out
	}
	if isStatic {
		for a, acc := range st {
			for as, v := range acc.Balances {
				if before[a][as] != v.String() {
					return rawOutcome{class: fmt.Sprintf("left-behind: the store's balance of %s/%s changed from %s to %s", a, as, before[a][as], v.String())}
				}
			}
		}
	}
	if z := (*big.Int)(machine.Zero); z.Sign() != 0 {
		v := z.String()
		z.SetInt64(0)
		return rawOutcome{class: "left-behind: machine.Zero is now " + v}
	}
	if ledger.Zero.Sign() != 0 {
		v := ledger.Zero.String()
		ledger.Zero.SetInt64(0)
		return rawOutcome{class: "left-behind: ledger.Zero is now " + v}
	}
	return out
}

func executeRaw(text string, vars map[string]string, store vm.Store, scriptMeta metadata.Metadata) (out rawOutcome) {
	done := make(chan rawOutcome, 1)
	go func() {
		defer func() {
			if e := recover(); e != nil {
				done <- rawOutcome{class: "panic:" + fmt.Sprint(e)}
			}
		}()
		// through the engine's compilation cache: a text executed twice runs the same cached program
		prog, err := sharedCompiler.Compile(text)
		if err != nil {
			_ = err.Error() // the engine reports the message to the client: rendering it must not crash either
			done <- rawOutcome{class: "compile-error"}
			return
		}
		m := vm.NewMachine(*prog)
		m.Printer = func(c chan machine.Value) {
			for range c {
			}
		}
		if err := m.SetVarsFromJSON(vars); err != nil {
			done <- rawOutcome{class: classify(err)}
			return
		}
		if _, _, err := m.ResolveResources(context.Background(), store); err != nil {
			done <- rawOutcome{class: phase(classify(err), "resolve-error")}
			return
		}
		if err := m.ResolveBalances(context.Background(), store); err != nil {
			done <- rawOutcome{class: phase(classify(err), "resolve-error")}
			return
		}
		res, err := vm.Run(m, ledger.RunScript{Script: ledger.Script{Plain: text, Vars: vars}, Metadata: scriptMeta})
		if err != nil {
			done <- rawOutcome{class: classify(err)}
			return
		}
		done <- rawOutcome{class: "ok", posts: res.Postings, meta: res.Metadata, ameta: res.AccountMetadata}
	}()
	select {
	case o := <-done:
		return o
	case <-time.After(10 * time.Second):
		return rawOutcome{class: "hang"}
	}
}

func storeOf(bal map[string]int64, k *big.Int) vm.StaticStore { return storeIn(bal, k, asset) }

func storeIn(bal map[string]int64, k *big.Int, as string) vm.StaticStore {
	st := vm.StaticStore{}
	for a, v := range bal {
		st[a] = &vm.AccountWithBalances{
			Account:  ledger.Account{Address: a, Metadata: metadata.Metadata{}},
			Balances: map[string]*big.Int{as: new(big.Int).Mul(big.NewInt(v), k)},
		}
	}
	return st
}

// colliding binding: the accounts of send 0 hold their balances in collideAssets[0]; the accounts of
// send 1 are the same symbols with a trailing "U", holding theirs in collideAssets[1]. The case's
// two sends use disjoint symbols, so a symbol's balance belongs to the send that names it.
func storeCollide(c Case) vm.StaticStore {
	st := vm.StaticStore{}
	in := func(s SendStmt, a string) bool {
		b, _ := json.Marshal(s)
		return strings.Contains(string(b), `"a":"`+a+`"`)
	}
	for a, v := range c.Bal {
		name, as := a, collideAssets[0]
		if len(c.Sends) > 1 && in(c.Sends[1], a) && a != "world" {
			name, as = collideName(a), collideAssets[1]
		}
		st[name] = &vm.AccountWithBalances{
			Account:  ledger.Account{Address: name, Metadata: metadata.Metadata{}},
			Balances: map[string]*big.Int{as: big.NewInt(v)},
		}
	}
	return st
}

// wrongAsset: a posting in an asset the program never names
func wrongAsset(r rawOutcome, allowed ...string) string {
	for _, p := range r.posts {
		ok := false
		for _, a := range allowed {
			if p.Asset == a {
				ok = true
			}
		}
		if !ok {
			return p.Asset
		}
	}
	return ""
}

// normalise: drop zero postings, merge adjacent postings with the same endpoints
// (representation choices of Funding.Concat / Take(0); fixed in DESIGN.md)
func normalise(ps []ledger.Posting, k *big.Int) ([]Posting, bool) {
	out := []Posting{}
	exact := true
	var last *big.Int
	for _, p := range ps {
		if p.Amount.Sign() == 0 {
			continue
		}
		q, r := new(big.Int).QuoRem(p.Amount, k, new(big.Int))
		if r.Sign() != 0 || !q.IsInt64() {
			exact = false
		}
		n := len(out)
		if n > 0 && out[n-1].Src == p.Source && out[n-1].Dst == p.Destination && p.Source != p.Destination {
			last.Add(last, q)
			out[n-1].Amt = last.Int64()
			continue
		}
		last = new(big.Int).Set(q)
		out = append(out, Posting{Src: p.Source, Dst: p.Destination, Amt: q.Int64()})
	}
	return out, exact
}

func hasAllot(c Case) bool {
	var ds func(d Dst) bool
	ds = func(d Dst) bool {
		if d.T == "allot" {
			return true
		}
		for _, x := range d.Ds {
			if ds(x) {
				return true
			}
		}
		return false
	}
	for _, s := range c.Sends {
		if s.Src.T == "allot" || ds(s.Dst) {
			return true
		}
	}
	return false
}

func outcomeOf(r rawOutcome, k *big.Int) (Outcome, bool) {
	class := r.class
	posts, exact := normalise(r.posts, k)
	if class == "ok" && len(posts) == 0 {
		class = "no-postings"
	}
	if class != "ok" {
		posts = []Posting{}
	}
	return Outcome{Class: class, Posts: posts}, exact
}

func same(a, b Outcome) bool {
	if a.Class != b.Class || len(a.Posts) != len(b.Posts) {
		return false
	}
	for i := range a.Posts {
		if a.Posts[i] != b.Posts[i] {
			return false
		}
	}
	return true
}

var scaleFactors = func() []*big.Int {
	p := func(n uint) *big.Int { return new(big.Int).Lsh(big.NewInt(1), n) }
	return []*big.Int{p(70), p(62), new(big.Int).Sub(p(63), big.NewInt(1)), p(61), new(big.Int).Add(p(64), big.NewInt(7))}
}()

var unitFactors = func() []*big.Int {
	p := func(n uint) *big.Int { return new(big.Int).Lsh(big.NewInt(1), n) }
	return []*big.Int{p(55), p(56), new(big.Int).Add(p(54), p(31))}
}()

func runCase(c Case) Result {
	one := big.NewInt(1)
	if c.Binding == "collide" {
		return runCollide(c)
	}
	text, pvals := renderFull(c.Sends, style{k: one})
	raw := execute(text, withVars(pvals, nil), storeOf(c.Bal, one))
	real, _ := outcomeOf(raw, one)
	if a := wrongAsset(raw, asset); a != "" {
		real.Class = "wrong-asset:" + a
	}
	res := Result{Case: c, Real: real, ScaledOk: true, Text: text, ScaledBad: []Outcome{}, SpellingBad: []Outcome{}, UnitBad: []Outcome{}}
	// a second execution of the same text must give the same outcome
	raw2 := execute(text, withVars(pvals, nil), storeOf(c.Bal, one))
	real2, _ := outcomeOf(raw2, one)
	res.Again = same(real, real2)
	crashed := strings.HasPrefix(real.Class, "panic") || real.Class == "hang"
	if !hasAllot(c) && !crashed {
		// every amount multiplied by K: the outcome must be the same postings times K.
		// The factors sit around the 2^63 / 2^64 boundaries so that some amounts of a
		// case fit a machine word and others (or their sums) do not.
		for _, k := range scaleFactors {
			rawS := execute(render(c.Sends, k), withVars(pvals, nil), storeOf(c.Bal, k))
			scaled, exact := outcomeOf(rawS, k)
			if !(exact && same(scaled, real)) {
				res.ScaledOk = false
				b, _ := json.Marshal(scaled)
				res.Scaled = "x" + k.String() + ": " + string(b)
				if exact {
					res.ScaledBad = append(res.ScaledBad, scaled)
				} else {
					res.ScaledInexact = true
				}
			}
		}
	}
	if hasAllot(c) && c.K > 0 && !crashed {
		// portions at large amounts: every amount multiplied by K*u, K a common multiple of the portion
		// denominators: every share is a whole multiple of u, and the outcome divided by u must be what the
		// source defines for the case multiplied by K (computed by TLC). u sits around 2^55 so that amounts
		// fit a machine word while amount x numerator does not.
		for _, u := range unitFactors {
			ku := new(big.Int).Mul(big.NewInt(c.K), u)
			rawU := execute(render(c.Sends, ku), withVars(pvals, nil), storeOf(c.Bal, ku))
			scaled, exact := outcomeOf(rawU, u)
			if !exact {
				res.UnitInexact = true
				res.Unit = "x" + ku.String()
			} else if !same(scaled, c.ExpK) {
				res.UnitBad = append(res.UnitBad, scaled)
				b, _ := json.Marshal(scaled)
				res.Unit = "x" + ku.String() + ": " + string(b)
			}
		}
	}
	if !crashed {
		// other spellings of the same program
		try := func(name string, st style, vars map[string]string, store vm.Store, allowed string) {
			st.k = one
			rawV := execute(renderStyled(c.Sends, st), withVars(pvals, vars), store)
			o, _ := outcomeOf(rawV, one)
			if a := wrongAsset(rawV, allowed); a != "" {
				o.Class = "wrong-asset:" + a
			}
			if !same(o, real) {
				res.SpellingBad = append(res.SpellingBad, o)
				if res.Spelling == "" {
					b, _ := json.Marshal(o)
					res.Spelling = name + ": " + string(b) + " for " + renderStyled(c.Sends, st)
				}
			}
		}
		if hasAllot(c) {
			try("portions-as-percentages", style{pct: true}, map[string]string{}, storeOf(c.Bal, one), asset)
		}
		if hasBoundedOverdraft(c) {
			try("overdraft-bound-as-difference", style{odExpr: true}, map[string]string{}, storeOf(c.Bal, one), asset)
		}
		try("amounts-with-leading-zeros", style{lead0: true}, map[string]string{}, storeOf(c.Bal, one), asset)
		// the asset as a variable: the same text twice through the compilation cache, with two assets
		try("asset-variable", style{assetVar: true}, map[string]string{"as": asset}, storeOf(c.Bal, one), asset)
		try("asset-variable-other-asset", style{assetVar: true}, map[string]string{"as": "EUR/2"}, storeIn(c.Bal, one, "EUR/2"), "EUR/2")
	}
	return res
}

func hasBoundedOverdraft(c Case) bool {
	var f func(s Src) bool
	f = func(s Src) bool {
		if s.T == "acct" && s.Od >= 0 {
			return true
		}
		for _, x := range s.Ss {
			if f(x) {
				return true
			}
		}
		return false
	}
	for _, s := range c.Sends {
		if f(s.Src) {
			return true
		}
	}
	return false
}

// runCollide: two sends in two assets over disjoint accounts whose names are chosen so that
// account+asset strings coincide across the sends
func runCollide(c Case) Result {
	one := big.NewInt(1)
	st := style{k: one, collide: true}
	text := renderStyled(c.Sends, st)
	raw := execute(text, map[string]string{}, storeCollide(c))
	// postings back to the case's symbols
	for i := range raw.posts {
		raw.posts[i].Source = collideSymbol(raw.posts[i].Source)
		raw.posts[i].Destination = collideSymbol(raw.posts[i].Destination)
	}
	real, _ := outcomeOf(raw, one)
	if a := wrongAsset(raw, collideAssets...); a != "" {
		real.Class = "wrong-asset:" + a
	}
	res := Result{Case: c, Real: real, ScaledOk: true, Text: text, ScaledBad: []Outcome{}, SpellingBad: []Outcome{}, UnitBad: []Outcome{}}
	raw2 := execute(text, map[string]string{}, storeCollide(c))
	for i := range raw2.posts {
		raw2.posts[i].Source = collideSymbol(raw2.posts[i].Source)
		raw2.posts[i].Destination = collideSymbol(raw2.posts[i].Destination)
	}
	real2, _ := outcomeOf(raw2, one)
	res.Again = same(real, real2)
	return res
}

func main() {
	in := flag.String("in", "", "cases (ndjson written by TLC)")
	out := flag.String("out", "", "results (ndjson)")
	stats := flag.String("stats", "", "stats (json)")
	corruptN := flag.Int("corrupt", 0, "instead of the cases themselves, run this many corrupted renderings of their texts")
	seed := flag.Int64("seed", 1, "seed of the corruptions")
	cacheMode := flag.Bool("cache", false, "replay Cache.tla request sequences on command.Compiler")
	flag.Parse()
	if *cacheMode {
		runCache(*in, *out, *stats)
		return
	}
	f, err := os.Open(*in)
	if err != nil {
		fmt.Fprintln(os.Stderr, err)
		os.Exit(2)
	}
	var cases []Case
	var progs []ProgCase
	sc := bufio.NewScanner(f)
	sc.Buffer(make([]byte, 1<<20), 1<<26)
	for sc.Scan() {
		if bytes.Contains(sc.Bytes(), []byte(`"prog":`)) {
			var pc ProgCase
			if err := json.Unmarshal(sc.Bytes(), &pc); err != nil {
				fmt.Fprintln(os.Stderr, "bad program case:", err)
				os.Exit(2)
			}
			progs = append(progs, pc)
			continue
		}
		var c Case
		if err := json.Unmarshal(sc.Bytes(), &c); err != nil {
			fmt.Fprintln(os.Stderr, "bad case:", err)
			os.Exit(2)
		}
		cases = append(cases, c)
	}
	if *corruptN > 0 {
		runCorrupt(cases, progs, *corruptN, *seed, *out, *stats)
		return
	}
	if len(progs) > 0 {
		runProgs(progs, *out, *stats)
		return
	}
	results := make([]Result, len(cases))
	var wg sync.WaitGroup
	nw := runtime.NumCPU()
	ch := make(chan int, 1024)
	for w := 0; w < nw; w++ {
		wg.Add(1)
		go func() {
			defer wg.Done()
			for i := range ch {
				results[i] = runCase(cases[i])
			}
		}()
	}
	for i := range cases {
		ch <- i
	}
	close(ch)
	wg.Wait()
	of, err := os.Create(*out)
	if err != nil {
		os.Exit(2)
	}
	w := bufio.NewWriterSize(of, 1<<20)
	classes := map[string]int{}
	texts := map[string]bool{}
	mismatch := 0
	for _, r := range results {
		b, _ := json.Marshal(r)
		w.Write(b)
		w.WriteByte('\n')
		classes[r.Real.Class]++
		texts[r.Text] = true
		if !same(r.Real, r.Exp) {
			mismatch++
		}
	}
	w.Flush()
	of.Close()
	keys := []string{}
	for k := range classes {
		keys = append(keys, k)
	}
	sort.Strings(keys)
	st := map[string]any{"cases": len(cases), "distinct_programs": len(texts), "classes": classes, "mismatch_with_reference": mismatch}
	if len(results) > 0 {
		st["samples"] = []any{map[string]any{"text": results[0].Text, "bal": results[0].Bal, "real": results[0].Real},
			map[string]any{"text": results[len(results)/2].Text, "bal": results[len(results)/2].Bal, "real": results[len(results)/2].Real}}
	}
	b, _ := json.MarshalIndent(st, "", " ")
	os.WriteFile(*stats, b, 0o644)
}

func runProgs(progs []ProgCase, out, stats string) {
	results := make([]map[string]any, len(progs))
	var wg sync.WaitGroup
	ch := make(chan int, 1024)
	for w := 0; w < runtime.NumCPU(); w++ {
		wg.Add(1)
		go func() {
			defer wg.Done()
			for i := range ch {
				results[i] = runProg(progs[i])
			}
		}()
	}
	// programs that may keep a reference to a shared number (save) run first, one at a time, so that
	// whatever one of them leaves behind is found right after it, by itself
	solo := map[int]bool{}
	for i := range progs {
		if strings.Contains(stmtKinds(progs[i].Prog), "save") {
			solo[i] = true
			results[i] = runProg(progs[i])
		}
	}
	for i := range progs {
		if !solo[i] {
			ch <- i
		}
	}
	close(ch)
	wg.Wait()
	of, err := os.Create(out)
	if err != nil {
		os.Exit(2)
	}
	w := bufio.NewWriterSize(of, 1<<20)
	classes := map[string]int{}
	texts := map[string]bool{}
	for _, r := range results {
		b, _ := json.Marshal(r)
		w.Write(b)
		w.WriteByte('\n')
		classes[r["real"].(ProgOutcome).Class]++
		texts[r["text"].(string)] = true
	}
	w.Flush()
	of.Close()
	st := map[string]any{"cases": len(progs), "distinct_programs": len(texts), "classes": classes, "mismatch_with_reference": 0}
	if len(results) > 0 {
		st["samples"] = []any{map[string]any{"text": results[len(results)/3]["text"], "real": results[len(results)/3]["real"]}}
	}
	b, _ := json.MarshalIndent(st, "", " ")
	os.WriteFile(stats, b, 0o644)
}

// runCorrupt executes corrupted renderings; the result lines carry exp = real so that only
// the C12 predicates (no panic, no hang, defined class, repeatable) can fail on them.
func runCorrupt(cases []Case, progs []ProgCase, n int, seed int64, out, stats string) {
	type job struct {
		text string
		vars map[string]string
		bal  map[string]int64
		meta []MetaEntry
	}
	rng := rand.New(rand.NewSource(seed))
	var jobs []job
	one := big.NewInt(1)
	for len(jobs) < n && (len(cases) > 0 || len(progs) > 0) {
		if len(progs) > 0 && (len(cases) == 0 || rng.Intn(2) == 0) {
			pc := progs[rng.Intn(len(progs))]
			text, vars := renderProg(pc.Prog)
			if rng.Intn(4) == 0 && len(vars) > 0 { // corrupt a supplied variable value instead of the text
				for k := range vars {
					vars[k] = oddLiterals[rng.Intn(len(oddLiterals))]
					break
				}
			} else {
				text = corrupt(text, rng)
				if rng.Intn(3) == 0 {
					text = corrupt(text, rng)
				}
			}
			jobs = append(jobs, job{text, vars, pc.Bal, pc.Meta})
		} else {
			c := cases[rng.Intn(len(cases))]
			text := corrupt(render(c.Sends, one), rng)
			if rng.Intn(3) == 0 {
				text = corrupt(text, rng)
			}
			jobs = append(jobs, job{text, map[string]string{}, c.Bal, nil})
		}
	}
	results := make([]map[string]any, len(jobs))
	var wg sync.WaitGroup
	ch := make(chan int, 1024)
	for w := 0; w < runtime.NumCPU(); w++ {
		wg.Add(1)
		go func() {
			defer wg.Done()
			for i := range ch {
				j := jobs[i]
				run := func() Outcome {
					v := map[string]string{}
					for k, x := range j.vars {
						v[k] = x
					}
					o, _ := outcomeOf(execute(j.text, v, progStore(j.bal, j.meta)), one)
					return o
				}
				a, b := run(), run()
				results[i] = map[string]any{"text": j.text, "vars": j.vars, "bal": j.bal, "sends": []SendStmt{}, "exp": a, "real": a,
					"againSame": same(a, b), "scaledOk": true, "scaledBad": []Outcome{}, "scaledInexact": false, "kinds": "corrupted-text"}
			}
		}()
	}
	for i := range jobs {
		ch <- i
	}
	close(ch)
	wg.Wait()
	of, err := os.Create(out)
	if err != nil {
		os.Exit(2)
	}
	w := bufio.NewWriterSize(of, 1<<20)
	classes := map[string]int{}
	texts := map[string]bool{}
	for _, r := range results {
		b, _ := json.Marshal(r)
		w.Write(b)
		w.WriteByte('\n')
		classes[strings.SplitN(r["real"].(Outcome).Class, ":", 2)[0]]++
		texts[r["text"].(string)] = true
	}
	w.Flush()
	of.Close()
	st := map[string]any{"cases": len(jobs), "distinct_programs": len(texts), "classes": classes, "mismatch_with_reference": 0}
	if len(results) > 2 {
		st["samples"] = []any{map[string]any{"text": results[1]["text"], "real": results[1]["real"]}, map[string]any{"text": results[2]["text"], "real": results[2]["real"]}}
	}
	b, _ := json.MarshalIndent(st, "", " ")
	os.WriteFile(stats, b, 0o644)
}
