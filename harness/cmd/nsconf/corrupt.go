package main

import (
	"math/rand"
	"regexp"
	"strings"
)

// Corrupted renderings of model-generated programs (C12, "every byte string
// offered as a script"): token deletion / duplication / transposition, literal
// substitution by odd literals, byte flips. TLA+ has nothing to say about the
// expected outcome of these; only "no panic, no hang, reported error" is judged.

var tokenRe = regexp.MustCompile(`\$[a-z_0-9]+|@[A-Za-z0-9_:]+|"[^"]*"|[0-9]+\s?/\s?[0-9]+|[0-9]+(\.[0-9]+)?%|[A-Za-z_]+|[0-9]+|\S`)

var oddLiterals = []string{"1/0", "0/0", "5 / 0", "200%", "0%", "100.5%", "[USD 99999999999999999999999999999999999999]", "[USD -1]", "[ 1]", "@", "@a:", "$", "\"\"", "remaining", "kept", "*", "[USD *]",
	"{", "}", "(", ")", "=", "\r\n", "\x00", "é", "//", "/*", "allowing unbounded overdraft", "allowing overdraft up to", "max", "from", "to", "vars {", "fail", "print", "send", "save", "meta(@a, \"k\")", "balance(@a, USD)"}

func corrupt(text string, rng *rand.Rand) string {
	locs := tokenRe.FindAllStringIndex(text, -1)
	if len(locs) == 0 {
		return text + oddLiterals[rng.Intn(len(oddLiterals))]
	}
	i := rng.Intn(len(locs))
	tok := text[locs[i][0]:locs[i][1]]
	switch rng.Intn(7) {
	case 0: // delete a token
		return text[:locs[i][0]] + text[locs[i][1]:]
	case 1: // duplicate a token
		return text[:locs[i][1]] + " " + tok + text[locs[i][1]:]
	case 2: // transpose two tokens
		j := rng.Intn(len(locs))
		if j == i {
			return text[:locs[i][0]] + text[locs[i][1]:]
		}
		a, b := i, j
		if a > b {
			a, b = b, a
		}
		return text[:locs[a][0]] + text[locs[b][0]:locs[b][1]] + text[locs[a][1]:locs[b][0]] + text[locs[a][0]:locs[a][1]] + text[locs[b][1]:]
	case 3: // replace a token by an odd literal
		return text[:locs[i][0]] + oddLiterals[rng.Intn(len(oddLiterals))] + text[locs[i][1]:]
	case 4: // insert an odd literal
		return text[:locs[i][0]] + oddLiterals[rng.Intn(len(oddLiterals))] + " " + text[locs[i][0]:]
	case 5: // flip a byte
		b := []byte(text)
		k := rng.Intn(len(b))
		b[k] ^= byte(1 << uint(rng.Intn(8)))
		return string(b)
	default: // truncate / CRLF
		if rng.Intn(2) == 0 {
			return text[:locs[i][0]]
		}
		return strings.ReplaceAll(text, "\n", "\r\n")[:locs[i][1]] + text[locs[i][1]:]
	}
}
