package main

import (
	"fmt"
	"math/big"
	"sort"
	"strings"

	ledger "github.com/formancehq/ledger/internal"
	"github.com/formancehq/ledger/internal/machine/vm"
	"github.com/formancehq/stack/libs/go-libs/metadata"
)

// whole programs of NumscriptProg.tla

type Value struct {
	Ty string `json:"ty"`
	S  string `json:"s"`
	N  int64  `json:"n"`
}

type Expr struct {
	T    string `json:"t"`
	V    Value  `json:"v"`
	Name string `json:"name"`
	Kids []Expr `json:"kids"`
}

type Decl struct {
	Name   string `json:"name"`
	Ty     string `json:"ty"`
	Origin string `json:"origin"`
	Acct   Expr   `json:"acct"`
	Key    string `json:"key"`
	Sup    Value  `json:"sup"`
}

type PStmt struct {
	K   string `json:"k"`
	Amt Expr   `json:"amt"`
	All bool   `json:"all"`
	Src Expr   `json:"src"`
	Od  int64  `json:"od"`
	Dst Expr   `json:"dst"`
	Key string `json:"key"`
	Val Expr   `json:"val"`
}

type Prog struct {
	Decls      []Decl   `json:"decls"`
	Stmts      []PStmt  `json:"stmts"`
	ExtraVar   bool     `json:"extraVar"`
	ScriptMeta []string `json:"scriptMeta"`
}

type MetaEntry struct {
	Acct string `json:"acct"`
	Key  string `json:"key"`
	V    Value  `json:"v"`
}

type KV struct {
	Acct string `json:"acct,omitempty"`
	K    string `json:"k"`
	V    string `json:"v"`
}

func valText(v Value) string {
	switch v.Ty {
	case "account":
		return "@" + v.S
	case "monetary":
		return fmt.Sprintf("[%s %d]", v.S, v.N)
	case "number":
		return fmt.Sprint(v.N)
	case "string":
		return fmt.Sprintf("%q", v.S)
	case "portion":
		return v.S
	case "asset":
		return v.S
	}
	return "?"
}

// the JSON/string form in which a value is supplied as a variable or stored as metadata
func valString(v Value) string {
	switch v.Ty {
	case "monetary":
		return fmt.Sprintf("%s %d", v.S, v.N)
	case "number":
		return fmt.Sprint(v.N)
	}
	return v.S
}

func exprText(e Expr) string {
	switch e.T {
	case "lit":
		return valText(e.V)
	case "var":
		return "$" + e.Name
	case "add":
		return exprText(e.Kids[0]) + " + " + exprText(e.Kids[1])
	case "sub":
		return exprText(e.Kids[0]) + " - " + exprText(e.Kids[1])
	case "monlit": // a monetary literal whose asset position is an expression
		return fmt.Sprintf("[%s %d]", exprText(e.Kids[0]), e.V.N)
	}
	return "?"
}

func renderProg(p Prog) (string, map[string]string) {
	var sb strings.Builder
	vars := map[string]string{}
	if len(p.Decls) > 0 {
		sb.WriteString("vars {\n")
		for _, d := range p.Decls {
			switch d.Origin {
			case "plain":
				fmt.Fprintf(&sb, "\t%s $%s\n", d.Ty, d.Name)
				if d.Sup.Ty != "none" {
					vars[d.Name] = valString(d.Sup)
				}
			case "meta":
				fmt.Fprintf(&sb, "\t%s $%s = meta(%s, %q)\n", d.Ty, d.Name, exprText(d.Acct), d.Key)
			case "balance":
				fmt.Fprintf(&sb, "\t%s $%s = balance(%s, USD)\n", d.Ty, d.Name, exprText(d.Acct))
			}
		}
		sb.WriteString("}\n")
	}
	if p.ExtraVar {
		vars["zzz"] = "1"
	}
	for _, s := range p.Stmts {
		switch s.K {
		case "send":
			amt := "[USD *]"
			if !s.All {
				amt = exprText(s.Amt)
			}
			src := exprText(s.Src)
			switch {
			case s.Od == -2:
				src += " allowing unbounded overdraft"
			case s.Od >= 0:
				src += fmt.Sprintf(" allowing overdraft up to [USD %d]", s.Od)
			}
			fmt.Fprintf(&sb, "send %s (\n\tsource = %s\n\tdestination = %s\n)\n", amt, src, exprText(s.Dst))
		case "save":
			amt := "[USD *]"
			if !s.All {
				amt = exprText(s.Amt)
			}
			fmt.Fprintf(&sb, "save %s from %s\n", amt, exprText(s.Src))
		case "txmeta":
			fmt.Fprintf(&sb, "set_tx_meta(%q, %s)\n", s.Key, exprText(s.Val))
		case "acctmeta":
			fmt.Fprintf(&sb, "set_account_meta(%s, %q, %s)\n", exprText(s.Src), s.Key, exprText(s.Val))
		case "fail":
			sb.WriteString("fail\n")
		case "print":
			fmt.Fprintf(&sb, "print %s\n", exprText(s.Val))
		}
	}
	return sb.String(), vars
}

func progStore(bal map[string]int64, meta []MetaEntry) vm.StaticStore {
	st := vm.StaticStore{}
	for a, v := range bal {
		st[a] = &vm.AccountWithBalances{
			Account:  ledger.Account{Address: a, Metadata: metadata.Metadata{}},
			Balances: map[string]*big.Int{asset: big.NewInt(v)},
		}
	}
	for _, m := range meta {
		if st[m.Acct] == nil {
			st[m.Acct] = &vm.AccountWithBalances{Account: ledger.Account{Address: m.Acct, Metadata: metadata.Metadata{}}, Balances: map[string]*big.Int{}}
		}
		st[m.Acct].Metadata[m.Key] = valString(m.V)
	}
	return st
}

type ProgCase struct {
	Prog  Prog             `json:"prog"`
	Bal   map[string]int64 `json:"bal"`
	Meta  []MetaEntry      `json:"meta"`
	Sends []SendStmt       `json:"sends"`
	Exp   ProgOutcome      `json:"exp"`
}

type ProgOutcome struct {
	Class    string    `json:"class"`
	Posts    []Posting `json:"posts"`
	TxMeta   []KV      `json:"txmeta"`
	AcctMeta []KV      `json:"acctmeta"`
}

func sortKV(kv []KV) []KV {
	sort.Slice(kv, func(i, j int) bool {
		if kv[i].Acct != kv[j].Acct {
			return kv[i].Acct < kv[j].Acct
		}
		return kv[i].K < kv[j].K
	})
	return kv
}

func runProg(c ProgCase) map[string]any {
	text, vars := renderProg(c.Prog)
	scriptMeta := metadata.Metadata{}
	for _, k := range c.Prog.ScriptMeta {
		scriptMeta[k] = "from-request"
	}
	once := func() ProgOutcome {
		// the engine consumes the variable map it is given: every execution gets its own copy
		vcopy := map[string]string{}
		for k, v := range vars {
			vcopy[k] = v
		}
		raw := executeWithMeta(text, vcopy, progStore(c.Bal, c.Meta), scriptMeta)
		one := big.NewInt(1)
		oc, _ := outcomeOf(raw, one)
		po := ProgOutcome{Class: oc.Class, Posts: oc.Posts, TxMeta: []KV{}, AcctMeta: []KV{}}
		if oc.Class == "ok" {
			for k, v := range raw.meta {
				if _, fromReq := scriptMeta[k]; fromReq {
					continue
				}
				po.TxMeta = append(po.TxMeta, KV{K: k, V: v})
			}
			for a, m := range raw.ameta {
				for k, v := range m {
					po.AcctMeta = append(po.AcctMeta, KV{Acct: a, K: k, V: v})
				}
			}
		}
		po.TxMeta, po.AcctMeta = sortKV(po.TxMeta), sortKV(po.AcctMeta)
		return po
	}
	real := once()
	again := once()
	c.Exp.TxMeta, c.Exp.AcctMeta = sortKV(c.Exp.TxMeta), sortKV(c.Exp.AcctMeta)
	if c.Exp.Posts == nil {
		c.Exp.Posts = []Posting{}
	}
	if c.Sends == nil {
		c.Sends = []SendStmt{}
	}
	return map[string]any{"text": text, "vars": vars, "bal": c.Bal, "sends": c.Sends, "exp": c.Exp, "real": real,
		"againSame": fmt.Sprint(real) == fmt.Sprint(again), "scaledOk": true, "scaledBad": []Outcome{}, "scaledInexact": false,
		"kinds": stmtKinds(c.Prog)}
}

func stmtKinds(p Prog) string {
	ks := []string{}
	for _, s := range p.Stmts {
		ks = append(ks, s.K)
	}
	origins := map[string]bool{}
	for _, d := range p.Decls {
		origins[d.Origin] = true
	}
	os := []string{}
	for o := range origins {
		os = append(os, o)
	}
	sort.Strings(os)
	return strings.Join(ks, "+") + "/vars:" + strings.Join(os, ",")
}
