// codecconf binds spec/LogChain.tla to the real log codec (C13): every history
// enumerated by TLC is instantiated with real ledger.Log values drawn from value
// pools (several seeds per class), chained with Log.ChainLog, written to both
// stored forms the repository uses and read back:
//
//	json : json.Marshal(ChainedLog)  ->  ChainedLog.UnmarshalJSON          (API / bulk export form)
//	row  : the ledgerstore.Logs row built as Store.InsertLogs builds it     ->  Logs.ToCore
//
// For each entry: was it read back without error/panic, is the re-marshalled
// content identical, does ComputeHash over the read-back entry and the read-back
// predecessor give the stored hash.
package main

import (
	"github.com/formancehq/ledger/verifharness/fakepg"
	"database/sql/driver"
	"context"
	"bufio"
	"bytes"
	"encoding/json"
	"flag"
	"fmt"
	"math/big"
	"math/rand"
	"os"
	"strings"
	"time"

	ledger "github.com/formancehq/ledger/internal"
	"github.com/formancehq/ledger/internal/storage/ledgerstore"
	"github.com/formancehq/stack/libs/go-libs/bun/bunpaginate"
	"github.com/formancehq/stack/libs/go-libs/metadata"
)

type entry struct {
	Kind   string `json:"kind"`
	Time   string `json:"time"`
	Amount string `json:"amount"`
	Meta   string `json:"meta"`
	Key    string `json:"key"`
	ID     string `json:"id"`
}

func pickTime(class string, rng *rand.Rand) ledger.Time {
	base := time.Date(2023, 5, 17, 13, 45, 12, 0, time.UTC)
	switch class {
	case "micro":
		return ledger.Time{Time: base.Add(time.Duration(rng.Intn(1000000)) * time.Microsecond)}
	case "far-past":
		return ledger.Time{Time: time.Date(1+rng.Intn(1500), 1, 1, 0, 0, 0, rng.Intn(1000)*1000, time.UTC)}
	case "year-9999-edge":
		// what ParseTime (the API's decoder) makes of the last instants of year 9999; a string it refuses is not a timestamp the API accepts
		cands := []string{"9999-12-31T23:59:59.9999996Z", "9999-12-31T23:59:59.9999995Z", "9999-12-31T23:59:59.9999996-05:00", "9999-12-31T23:59:59.9999994Z", "9999-12-31T23:59:59.999999Z"}
		k := rng.Intn(len(cands))
		for i := range cands {
			if t, err := ledger.ParseTime(cands[(k+i)%len(cands)]); err == nil {
				return t
			}
		}
		return ledger.Time{Time: base}
	case "far-future":
		return ledger.Time{Time: time.Date(3000+rng.Intn(6000), 12, 31, 23, 59, 59, 999999000, time.UTC)}
	default: // a time the API accepted with a zone offset (ParseTime keeps the zone)
		t, _ := ledger.ParseTime(fmt.Sprintf("2023-03-04T05:06:07.%06d+0%d:30", rng.Intn(1000000), 1+rng.Intn(8)))
		return t
	}
}

func pickAmount(class string, rng *rand.Rand) *big.Int {
	switch class {
	case "small":
		return big.NewInt(int64(rng.Intn(1000)))
	case "over-64-bit":
		return new(big.Int).Add(new(big.Int).Lsh(big.NewInt(1), 64), big.NewInt(int64(rng.Intn(1000))))
	default:
		return new(big.Int).Sub(new(big.Int).Lsh(big.NewInt(1), 200), big.NewInt(int64(rng.Intn(1000))))
	}
}

func pickMeta(class string, rng *rand.Rand) metadata.Metadata {
	switch class {
	case "empty":
		if rng.Intn(2) == 0 {
			return metadata.Metadata{}
		}
		return nil
	case "unicode":
		return metadata.Metadata{"ключ": "значение €", "emoji": "💸", "k": fmt.Sprint(rng.Intn(100))}
	default:
		return metadata.Metadata{"quote\"key": "it's \"quoted\" \\ back\\slash", "nl": "a\nb\tc", "lt": "<script>&amp;", "empty": ""}
	}
}

// the key a DELETE_METADATA entry removes: plain, unicode, or needing JSON escapes (what json.Marshal rewrites: " \\ < > & control characters, U+2028/9)
func pickDelKey(class string, rng *rand.Rand) string {
	switch class {
	case "empty":
		return []string{"some key", "k"}[rng.Intn(2)]
	case "unicode":
		return []string{"ключ €", "💸", "clé-é"}[rng.Intn(3)]
	default:
		return []string{"rate<limit>&burst", "\"quoted\"", "back\\slash", "nl\nx\ty", "sep\u2028\u2029", "a\"b\\c<d>&e"}[rng.Intn(6)]
	}
}

func pickKey(class string, rng *rand.Rand) string {
	if class == "none" {
		return ""
	}
	if class == "escapes" {
		return []string{"ik \"q\" <a>&b \\ ", "ik\u2028x", "ik\n\t"}[rng.Intn(3)] + fmt.Sprint(rng.Intn(100000))
	}
	// 255 characters (what the column takes), or longer
	if rng.Intn(2) == 0 {
		return strings.Repeat("k", 295) + fmt.Sprintf("%05d", rng.Intn(100000))
	}
	return strings.Repeat("k", 250) + fmt.Sprintf("%05d", rng.Intn(100000))
}

func pickID(class string, rng *rand.Rand) *big.Int {
	if class == "small" {
		return big.NewInt(int64(rng.Intn(1000)))
	}
	return new(big.Int).Add(new(big.Int).Lsh(big.NewInt(1), 53), big.NewInt(int64(1+rng.Intn(1000))))
}

// account addresses of every lexical form an address may take: segments, digits only, leading zeros, one letter, long
var addressPool = []string{"users:001", "4242", "007", "a", "users:001:main-x_1", "x" + strings.Repeat("y", 60), "0", "order:1-2"}

func build(e entry, rng *rand.Rand) *ledger.Log {
	ts := pickTime(e.Time, rng)
	acct := addressPool[rng.Intn(len(addressPool))]
	// the date of a log entry is always produced by the engine (ledger.Now(): UTC, microseconds);
	// the timestamp of a transaction is whatever the API accepted
	logDate := ts.UTC()
	if e.Time == "year-9999-edge" {
		logDate = pickTime("micro", rng).UTC()
	}
	var l *ledger.Log
	mkTx := func(id *big.Int) *ledger.Transaction {
		tx := ledger.NewTransaction().WithPostings(
			ledger.NewPosting("world", acct, "USD/2", pickAmount(e.Amount, rng)),
			ledger.NewPosting(acct, "bank", "COIN", pickAmount(e.Amount, rng)),
		).WithDate(ts).WithReference(pickKey(e.Key, rng))
		tx.ID = id
		tx.Metadata = pickMeta(e.Meta, rng)
		return tx
	}
	switch e.Kind {
	case "NEW_TRANSACTION":
		am := map[string]metadata.Metadata{}
		if e.Meta != "empty" {
			am[acct] = pickMeta(e.Meta, rng)
		}
		l = ledger.NewTransactionLogWithDate(mkTx(big.NewInt(int64(rng.Intn(1000)))), am, logDate)
	case "REVERTED_TRANSACTION":
		l = ledger.NewRevertedTransactionLog(logDate, pickID(e.ID, rng), mkTx(big.NewInt(int64(rng.Intn(1000)))))
	case "SET_METADATA/ACCOUNT":
		l = ledger.NewSetMetadataOnAccountLog(logDate, acct, pickMeta(e.Meta, rng))
	case "SET_METADATA/TRANSACTION":
		l = ledger.NewSetMetadataOnTransactionLog(logDate, pickID(e.ID, rng), pickMeta(e.Meta, rng))
	case "DELETE_METADATA/ACCOUNT":
		l = ledger.NewDeleteMetadataLog(logDate, ledger.DeleteMetadataLogPayload{TargetType: ledger.MetaTargetTypeAccount, TargetID: acct, Key: pickDelKey(e.Meta, rng)})
	case "DELETE_METADATA/TRANSACTION":
		l = ledger.NewDeleteMetadataLog(logDate, ledger.DeleteMetadataLogPayload{TargetType: ledger.MetaTargetTypeTransaction, TargetID: pickID(e.ID, rng), Key: pickDelKey(e.Meta, rng)})
	}
	return l.WithIdempotencyKey(pickKey(e.Key, rng))
}

type obs struct {
	Kind            string `json:"kind"`
	JSONReadBack    bool   `json:"jsonReadBack"`
	JSONSameContent bool   `json:"jsonSameContent"`
	JSONHashOk      bool   `json:"jsonHashOk"`
	RowReadBack     bool   `json:"rowReadBack"`
	RowSameContent  bool   `json:"rowSameContent"`
	RowHashOk       bool   `json:"rowHashOk"`
	Detail          string `json:"detail"`
}

// recompute the hash of l the way Log.ChainLog computed it: id 0, no hash yet
func hashOK(prev, l *ledger.ChainedLog) bool {
	cp := *l
	cp.ID = big.NewInt(0)
	cp.Hash = nil
	cp.ComputeHash(prev)
	return bytes.Equal(cp.Hash, l.Hash)
}

func viaJSON(c *ledger.ChainedLog) (out *ledger.ChainedLog, err error) {
	defer func() {
		if e := recover(); e != nil {
			err = fmt.Errorf("panic: %v", e)
		}
	}()
	b, err := json.Marshal(c)
	if err != nil {
		return nil, err
	}
	out = &ledger.ChainedLog{}
	if err := json.Unmarshal(b, out); err != nil {
		return nil, err
	}
	return out, nil
}

// the row Store.InsertLogs writes (data = json of the payload), read back with Logs.ToCore
func viaRow(c *ledger.ChainedLog) (out *ledger.ChainedLog, err error) {
	defer func() {
		if e := recover(); e != nil {
			err = fmt.Errorf("panic: %v", e)
		}
	}()
	// the real Store.InsertLogs over the recording driver: the row is what it hands to COPY
	srv := &fakepg.Server{}
	db := fakepg.Open(srv)
	defer db.Close()
	store := ledgerstore.NewStoreOverDB(db, "bucket", "l")
	if err := store.InsertLogs(context.Background(), c); err != nil {
		return nil, fmt.Errorf("InsertLogs: %w", err)
	}
	if len(srv.ExecArgs) != 1 || len(srv.ExecArgs[0]) != 7 {
		return nil, fmt.Errorf("InsertLogs wrote %d rows", len(srv.ExecArgs))
	}
	a := srv.ExecArgs[0]
	str := func(v driver.Value) string {
		switch x := v.(type) {
		case string:
			return x
		case []byte:
			return string(x)
		case nil:
			return ""
		}
		return fmt.Sprint(v)
	}
	id, ok := new(big.Int).SetString(str(a[1]), 10)
	if !ok {
		return nil, fmt.Errorf("id column %v", a[1])
	}
	var date ledger.Time
	if err := date.Scan(a[4]); err != nil {
		return nil, fmt.Errorf("date column %v: %w", a[4], err)
	}
	hash, _ := a[3].([]byte)
	row := ledgerstore.Logs{
		Ledger: str(a[0]), ID: (*bunpaginate.BigInt)(id), Type: str(a[2]), Hash: hash,
		Date: date, Data: []byte(str(a[5])), IdempotencyKey: str(a[6]),
	}
	return row.ToCore(), nil
}

func sameContent(a, b *ledger.ChainedLog) bool {
	x, err1 := json.Marshal(a)
	y, err2 := json.Marshal(b)
	return err1 == nil && err2 == nil && bytes.Equal(x, y)
}

func main() {
	in := flag.String("in", "", "histories")
	out := flag.String("out", "", "results")
	stats := flag.String("stats", "", "stats")
	seed := flag.Int64("seed", 1, "seed of the value pools")
	reps := flag.Int("reps", 3, "instantiations per history")
	flag.Parse()
	f, err := os.Open(*in)
	if err != nil {
		fmt.Fprintln(os.Stderr, err)
		os.Exit(2)
	}
	of, _ := os.Create(*out)
	w := bufio.NewWriter(of)
	sc := bufio.NewScanner(f)
	sc.Buffer(make([]byte, 1<<20), 1<<24)
	n, logs := 0, 0
	kinds := map[string]int{}
	var samples []any
	for sc.Scan() {
		var h struct {
			Entries []entry `json:"entries"`
		}
		if err := json.Unmarshal(sc.Bytes(), &h); err != nil {
			os.Exit(2)
		}
		for rep := 0; rep < *reps; rep++ {
			rng := rand.New(rand.NewSource(*seed*1000003 + int64(n)*31 + int64(rep)))
			var prev, prevJ, prevR *ledger.ChainedLog
			line := map[string]any{"entries": h.Entries}
			os := []obs{}
			for _, e := range h.Entries {
				c := build(e, rng).ChainLog(prev)
				o := obs{Kind: e.Kind}
				if j, err := viaJSON(c); err == nil {
					o.JSONReadBack = true
					o.JSONSameContent = sameContent(c, j)
					o.JSONHashOk = hashOK(prevJ, j)
					prevJ = j
				} else {
					o.Detail = "json: " + err.Error()
					prevJ = c
				}
				if r, err := viaRow(c); err == nil {
					o.RowReadBack = true
					o.RowSameContent = sameContent(c, r)
					o.RowHashOk = hashOK(prevR, r)
					prevR = r
				} else {
					o.Detail += " row: " + err.Error()
					prevR = c
				}
				os = append(os, o)
				prev = c
				logs++
				kinds[e.Kind]++
			}
			line["obs"] = os
			if len(samples) < 2 && len(h.Entries) == 2 {
				samples = append(samples, line)
			}
			b, _ := json.Marshal(line)
			w.Write(b)
			w.WriteByte('\n')
		}
		n++
	}
	w.Flush()
	of.Close()
	st, _ := json.MarshalIndent(map[string]any{"histories": n, "instantiations": n * *reps, "logs": logs, "by_kind": kinds, "samples": samples}, "", " ")
	os.WriteFile(*stats, st, 0o644)
}
