// lockconf binds spec/Lock.tla to command.DefaultLocker (C15).
//
// Replay (spec -> code): every behaviour emitted by TLC (LockGen.tla) is
// executed on a real DefaultLocker under the gated scheduler; after every step
// the lock tables are projected (VerifLockerSnapshot) and written, together
// with what actually happened, as one trace line.
//
// Free-running (code -> spec): goroutines issue random Lock/unlock/cancel under
// the Go scheduler; the hook notes (emitted under the locker mutex) give the
// linearisation order of the critical sections.
//
// The traces are judged by TLC: LockTrace.tla (conformance with the
// specification) and LockObs.tla (the C15 predicates on the observed values).
package main

import (
	"context"
	"flag"
	"fmt"
	"math/rand"
	"os"
	"path/filepath"
	"sort"
	"sync"
	"time"

	"github.com/formancehq/ledger/internal/engine/command"
	"github.com/formancehq/ledger/verifharness/sched"
	"github.com/formancehq/ledger/verifharness/tlaio"
	"github.com/formancehq/stack/libs/go-libs/logging"
)

type reqState struct {
	id       string
	accounts command.Accounts
	ctx      context.Context
	cancel   context.CancelFunc
	unlock   command.Unlock
	err      error
	returned bool
	granted  bool // a recheck granted it (note seen)
	released bool
	started  bool
	intent   any
}

func toStrings(v any) []string {
	out := []string{}
	if l, ok := v.([]any); ok {
		for _, x := range l {
			out = append(out, fmt.Sprint(x))
		}
	}
	sort.Strings(out)
	return out
}

type runner struct {
	s       *sched.Sched
	locker  *command.DefaultLocker
	reqs    map[string]*reqState
	order   []string
	byInt   map[any]string
	w       *tlaio.Writer
	lastSeq int
	accts   []string
}

func (r *runner) holders() []string {
	out := []string{}
	for _, id := range r.order {
		q := r.reqs[id]
		if q.released {
			continue
		}
		if q.returned && q.err == nil {
			out = append(out, id)
		} else if !q.returned && q.granted {
			out = append(out, id)
		}
	}
	return out
}

// digest the hook notes emitted since the last call
func (r *runner) digest() (outcome string, granted []string) {
	granted = []string{}
	for _, e := range r.s.EventsSince(r.lastSeq) {
		switch e.Point {
		case "lock.acquired":
			outcome = "acquired"
		case "lock.enqueued":
			outcome = "enqueued"
			r.byInt[e.KV["intent"]] = e.Proc
			r.reqs[e.Proc].intent = e.KV["intent"]
		case "lock.granted":
			if id, ok := r.byInt[e.KV["intent"]]; ok {
				r.reqs[id].granted = true
				granted = append(granted, id)
			}
		case "lock.observed":
			outcome = "observed"
		case "lock.cancelled":
			outcome = "cancelled"
		}
		if e.Seq > r.lastSeq {
			r.lastSeq = e.Seq
		}
	}
	return
}

func (r *runner) emit(ev, id, outcome string, granted []string) {
	snap := command.VerifLockerSnapshot(r.locker)
	rl := map[string]int64{}
	for _, a := range r.accts {
		rl[a] = snap.Read[a]
	}
	queue := []string{}
	for _, in := range snap.QueuedIntents {
		queue = append(queue, r.byInt[in])
	}
	if granted == nil {
		granted = []string{}
	}
	_ = r.w.Write(map[string]any{
		"ev": ev, "r": id, "out": outcome, "granted": granted,
		"rl": rl, "wl": snap.Write, "queue": queue, "holders": r.holders(),
	})
}

func accJSON(acc map[string]command.Accounts, order []string) map[string]any {
	m := map[string]any{}
	for _, id := range order {
		a := acc[id]
		rd, wr := a.Read, a.Write
		if rd == nil {
			rd = []string{}
		}
		if wr == nil {
			wr = []string{}
		}
		m[id] = map[string]any{"read": rd, "write": wr}
	}
	return m
}

type stats struct {
	Behaviours   int            `json:"behaviours"`
	Runs         int            `json:"runs"`
	Steps        int            `json:"steps"`
	Skipped      int            `json:"skipped_steps"`
	Stuck        int            `json:"stuck"`
	Coincidences int            `json:"coincidence_runs"`
	CoinObserved int            `json:"coincidence_took_grant"`
	CoinCancel   int            `json:"coincidence_took_cancel"`
	Actions      map[string]int `json:"actions"`
	FreeRuns     int            `json:"free_runs"`
	FreeEvents   int            `json:"free_events"`
	FreeHung     int            `json:"free_hung"`
	Distinct     int            `json:"distinct_behaviours"`
	Samples      []any          `json:"samples"`
}

func replay(path string, w *tlaio.Writer, st *stats, repeat int) error {
	lines, err := tlaio.ReadNDJSON(path)
	if err != nil || len(lines) == 0 {
		return fmt.Errorf("bad behaviour %s: %v", path, err)
	}
	accRaw := lines[0]["acc"].(map[string]any)
	order := []string{}
	for id := range accRaw {
		order = append(order, id)
	}
	sort.Strings(order)
	acctSet := map[string]bool{}
	acc := map[string]command.Accounts{}
	for _, id := range order {
		m := accRaw[id].(map[string]any)
		a := command.Accounts{Read: toStrings(m["read"]), Write: toStrings(m["write"])}
		acc[id] = a
		for _, x := range append(append([]string{}, a.Read...), a.Write...) {
			acctSet[x] = true
		}
	}
	accts := []string{}
	for a := range acctSet {
		accts = append(accts, a)
	}
	sort.Strings(accts)

	// does the behaviour contain a grant/cancel coincidence? then repeat it
	runs := 1
	coincidence := false
	{
		cancelled := map[string]bool{}
		for _, l := range lines[1:] {
			if l["a"] == "Cancel" {
				cancelled[fmt.Sprint(l["r"])] = true
			}
		}
		if len(cancelled) > 0 {
			coincidence = true // decided precisely at run time; repeating is harmless
			runs = repeat
		}
	}
	st.Behaviours++
	for run := 0; run < runs; run++ {
		st.Runs++
		s := sched.New()
		s.Watchdog = 300 * time.Millisecond
		r := &runner{s: s, locker: command.NewDefaultLocker(), reqs: map[string]*reqState{}, order: order,
			byInt: map[any]string{}, w: w, accts: accts}
		for _, id := range order {
			ctx, cancel := context.WithCancel(context.Background())
			r.reqs[id] = &reqState{id: id, accounts: acc[id], ctx: ctx, cancel: cancel}
		}
		_ = w.Write(map[string]any{"ev": "reset", "acc": accJSON(acc, order), "accts": accts, "src": filepath.Base(path)})
		for _, l := range lines[1:] {
			act, id := fmt.Sprint(l["a"]), fmt.Sprint(l["r"])
			q := r.reqs[id]
			st.Steps++
			switch act {
			case "Request":
				if q.started {
					st.Skipped++
					continue
				}
				q.started = true
				s.Spawn(q.ctx, id, func(ctx context.Context) {
					q.unlock, q.err = r.locker.Lock(ctx, q.accounts)
				})
				rep := s.Step(id)
				if rep.Stuck {
					st.Stuck++
				}
				if rep.Returned {
					q.returned = true
				}
				out, granted := r.digest()
				r.emit("Request", id, out, granted)
				st.Actions["Request/"+out]++
			case "Cancel":
				if q.returned {
					st.Skipped++
					continue
				}
				q.cancel()
				r.emit("Cancel", id, "", nil)
				st.Actions["Cancel"]++
			case "Observe", "CancelSeen":
				point, parked, _ := s.State(id)
				if !parked || point != "lock.wait" || (!q.granted && q.ctx.Err() == nil) {
					st.Skipped++
					continue
				}
				both := q.granted && q.ctx.Err() != nil
				rep := s.Step(id)
				if rep.Stuck {
					st.Stuck++
					continue
				}
				q.returned = rep.Returned
				out, granted := r.digest()
				ev := "Observe"
				if out == "cancelled" {
					ev = "CancelSeen"
				}
				if both {
					st.Coincidences++
					if ev == "Observe" {
						st.CoinObserved++
					} else {
						st.CoinCancel++
					}
				}
				r.emit(ev, id, out, granted)
				st.Actions[ev]++
			case "Release":
				if !q.returned || q.err != nil || q.released {
					st.Skipped++
					continue
				}
				q.unlock(sched.WithProc(context.Background(), id))
				q.released = true
				_, granted := r.digest()
				r.emit("Release", id, "", granted)
				st.Actions["Release"]++
			}
		}
		s.Kill()
		for _, q := range r.reqs {
			q.cancel()
		}
		if !coincidence {
			break
		}
	}
	return nil
}

// slowLogger stands in for the request's logger in free-running executions: the locker logs between deciding that a
// request must wait and queueing it, and a real logger takes its time there. Nothing else is logged.
type slowLogger struct{}

func (slowLogger) Debugf(f string, args ...any) {
	if len(f) >= 17 && f[:17] == "Lock not acquired" {
		time.Sleep(time.Duration(rand.Intn(300)) * time.Microsecond)
	}
}
func (slowLogger) Infof(string, ...any)                         {}
func (slowLogger) Errorf(string, ...any)                        {}
func (slowLogger) Debug(...any)                                 {}
func (slowLogger) Info(...any)                                  {}
func (slowLogger) Error(...any)                                 {}
func (l slowLogger) WithFields(map[string]any) logging.Logger   { return l }
func (l slowLogger) WithField(string, any) logging.Logger       { return l }
func (l slowLogger) WithContext(context.Context) logging.Logger { return l }

// free-running driver: n goroutines, random populations, real Go scheduling.
// The trace is the sequence of hook notes (ordered under the locker mutex).
func freeRun(w *tlaio.Writer, st *stats, seed int64, nreq int, accts []string) {
	rng := rand.New(rand.NewSource(seed))
	s := sched.New()
	s.FreeRun = true
	s.Jitter = func(string) {
		time.Sleep(time.Duration(rand.Intn(50)) * time.Microsecond)
	}
	locker := command.NewDefaultLocker()
	acc := map[string]command.Accounts{}
	order := []string{}
	for i := 1; i <= nreq; i++ {
		id := fmt.Sprintf("r%d", i)
		order = append(order, id)
		var a command.Accounts
		for len(a.Read)+len(a.Write) == 0 {
			a = command.Accounts{Read: []string{}, Write: []string{}}
			for _, x := range accts {
				switch rng.Intn(4) {
				case 0:
					a.Read = append(a.Read, x)
				case 1:
					a.Write = append(a.Write, x)
				case 2:
					if rng.Intn(4) == 0 {
						a.Read = append(a.Read, x)
						a.Write = append(a.Write, x)
					}
				}
			}
		}
		acc[id] = a
	}
	var wg sync.WaitGroup
	for _, id := range order {
		id := id
		hold := time.Duration(rng.Intn(300)) * time.Microsecond
		start := time.Duration(rng.Intn(300)) * time.Microsecond
		cancelAfter := time.Duration(-1)
		if rng.Intn(3) == 0 {
			cancelAfter = time.Duration(rng.Intn(400)) * time.Microsecond
		}
		wg.Add(1)
		go func() {
			defer wg.Done()
			ctx, cancel := context.WithCancel(logging.ContextWithLogger(sched.WithProc(context.Background(), id), slowLogger{}))
			defer cancel()
			time.Sleep(start)
			if cancelAfter >= 0 {
				go func() { time.Sleep(cancelAfter); s.Record(id, "cancel"); cancel() }()
			}
			unlock, err := locker.Lock(ctx, acc[id])
			if err != nil {
				s.Record(id, "returned.err")
				return
			}
			s.Record(id, "returned.ok")
			time.Sleep(hold)
			unlock(ctx)
		}()
	}
	doneCh := make(chan struct{})
	go func() { wg.Wait(); close(doneCh) }()
	hung := false
	select {
	case <-doneCh:
	case <-time.After(3 * time.Second):
		// some Lock call never completed although every holder released
		hung = true
		st.FreeHung++
	}
	time.Sleep(time.Millisecond)
	st.FreeRuns++
	_ = w.Write(map[string]any{"ev": "reset", "acc": accJSON(acc, order), "accts": accts, "src": fmt.Sprintf("free-%d", seed)})
	byInt := map[any]string{}
	evs := s.Events()
	consumed := map[int]bool{}
	for _, e := range evs {
		// which request an intent belongs to does not depend on the order the notes were recorded in
		if e.Point == "lock.enqueued" {
			byInt[e.KV["intent"]] = e.Proc
		}
	}
	for i := 0; i < len(evs); i++ {
		e := evs[i]
		if consumed[i] {
			continue
		}
		line := map[string]any{"r": e.Proc, "granted": []string{}}
		switch e.Point {
		case "lock.acquired":
			line["ev"], line["out"] = "Request", "acquired"
		case "lock.enqueued":
			byInt[e.KV["intent"]] = e.Proc
			line["ev"], line["out"] = "Request", "enqueued"
		case "lock.released", "lock.cancelled":
			if e.Point == "lock.released" {
				line["ev"] = "Release"
			} else {
				line["ev"] = "CancelSeen"
			}
			// the grants of the recheck scan belong to the same critical section:
			// they are the lock.granted notes of this process up to the next note
			// emitted under the locker mutex (events recorded outside it may interleave)
			g := []string{}
		scan:
			for j := i + 1; j < len(evs); j++ {
				switch evs[j].Point {
				case "lock.granted":
					if evs[j].Proc != e.Proc {
						break scan
					}
					g = append(g, byInt[evs[j].KV["intent"]])
					consumed[j] = true
				case "lock.acquired", "lock.enqueued", "lock.released", "lock.cancelled":
					break scan
				}
			}
			line["granted"] = g
		case "lock.observed":
			line["ev"] = "Observe"
		case "cancel":
			line["ev"] = "Cancel"
		case "returned.ok", "returned.err":
			line["ev"] = "Returned"
			line["out"] = e.Point[len("returned."):]
		default:
			continue
		}
		st.FreeEvents++
		_ = w.Write(line)
	}
	snap := command.VerifLockerSnapshot(locker)
	rl := map[string]int64{}
	for _, a := range accts {
		rl[a] = snap.Read[a]
	}
	_ = w.Write(map[string]any{"ev": "Final", "r": "", "rl": rl, "wl": snap.Write, "queue": []string{}, "queued": len(snap.Queued), "hung": hung})
	s.Kill()
}

func main() {
	in := flag.String("in", "", "directory of TLC behaviours (b*.ndjson)")
	out := flag.String("out", "", "output directory")
	repeat := flag.Int("repeat", 16, "runs of each behaviour containing a cancellation")
	free := flag.Int("free", 0, "number of free-running executions")
	freeReqs := flag.Int("free-reqs", 6, "requests per free-running execution")
	seed := flag.Int64("seed", 1, "seed")
	flag.Parse()
	st := &stats{Actions: map[string]int{}}
	w, err := tlaio.NewWriter(filepath.Join(*out, "replay.ndjson"))
	if err != nil {
		fmt.Fprintln(os.Stderr, err)
		os.Exit(2)
	}
	seen := map[string]bool{}
	if *in != "" {
		for _, f := range tlaio.ListFiles(*in, "b*.ndjson") {
			b, _ := os.ReadFile(f)
			if seen[string(b)] {
				continue
			}
			seen[string(b)] = true
			if len(st.Samples) < 3 {
				l, _ := tlaio.ReadNDJSON(f)
				st.Samples = append(st.Samples, l)
			}
			if err := replay(f, w, st, *repeat); err != nil {
				fmt.Fprintln(os.Stderr, err)
				os.Exit(2)
			}
		}
	}
	st.Distinct = len(seen)
	if err := w.Close(); err != nil {
		fmt.Fprintln(os.Stderr, err)
		os.Exit(2)
	}
	fw, err := tlaio.NewWriter(filepath.Join(*out, "free.ndjson"))
	if err != nil {
		os.Exit(2)
	}
	for i := 0; i < *free; i++ {
		freeRun(fw, st, *seed*100003+int64(i), *freeReqs, []string{"a", "b", "c"})
	}
	// pairs on one account: when the holder releases while the other request is on its way into the queue, nobody is
	// left to release after it, so a request that was not granted then stays ungranted (and is reported as hung)
	for i := 0; i < 2**free; i++ {
		freeRun(fw, st, *seed*100019+int64(i), 2, []string{"a"})
	}
	_ = fw.Close()
	if err := tlaio.WriteJSON(filepath.Join(*out, "stats.json"), st); err != nil {
		os.Exit(2)
	}
}
