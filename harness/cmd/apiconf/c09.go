package main

import (
	"bufio"
	"context"
	"encoding/json"
	"fmt"
	"math/big"
	"net/http/httptest"
	"os"
	"strings"
	"time"

	ledger "github.com/formancehq/ledger/internal"
	"github.com/formancehq/ledger/internal/engine/command"
	"github.com/formancehq/ledger/verifharness/apiback"
	"github.com/formancehq/ledger/verifharness/vstore"
	"github.com/formancehq/stack/libs/go-libs/metadata"
)

// C09: posting lists enumerated by Postings.tla, submitted in posting mode through
// four entry points, compared exactly with what was committed.

type post struct {
	Src   string `json:"src"`
	Dst   string `json:"dst"`
	Asset string `json:"asset"`
	Amt   int64  `json:"amt"`
}

type c09case struct {
	Posts []post                      `json:"posts"`
	Bal   map[string]map[string]int64 `json:"bal"`
	Exp   struct {
		Ok bool `json:"ok"`
	} `json:"exp"`
}

// binding of the model's symbols to concrete values ("pools")
type binding struct {
	name   string
	acct   map[string]string
	asset  map[string]string
	factor *big.Int
}

var bindings = []binding{
	{"plain", map[string]string{"a": "alice", "b": "bob", "world": "world"}, map[string]string{"USD": "USD", "EUR": "EUR"}, big.NewInt(1)},
	{"odd-forms", map[string]string{"a": "users:001:main-x_1", "b": "b", "world": "world"}, map[string]string{"USD": "USD/2", "EUR": "COIN"}, big.NewInt(1)},
	{"big", map[string]string{"a": "alice", "b": "bob", "world": "world"}, map[string]string{"USD": "USD", "EUR": "EUR/6"}, new(big.Int).Lsh(big.NewInt(1), 70)},
	// account names that differ only by letter case or by which separator they use
	{"near-names", map[string]string{"a": "users:001", "b": "users_001", "world": "world"}, map[string]string{"USD": "USD", "EUR": "EUR"}, big.NewInt(1)},
	{"near-case", map[string]string{"a": "Bob", "b": "bob", "world": "world"}, map[string]string{"USD": "USD", "EUR": "EUR"}, big.NewInt(1)},
	// asset names that run into the amounts when written one after the other: "EUR1"+"5" = "EUR"+"15"
	{"glued", map[string]string{"a": "alice", "b": "bob", "world": "world"}, map[string]string{"USD": "EUR1", "EUR": "EUR"}, big.NewInt(1)},
}

func seedBalances(bal map[string]map[string]int64, b binding) []*ledger.ChainedLog {
	var prev *ledger.ChainedLog
	out := []*ledger.ChainedLog{}
	id := uint64(0)
	for _, acc := range []string{"a", "b"} {
		for _, as := range []string{"USD", "EUR"} {
			n := bal[acc][as]
			if n == 0 {
				continue
			}
			amt := new(big.Int).Mul(big.NewInt(n), b.factor)
			tx := ledger.NewTransaction().WithPostings(ledger.NewPosting("world", b.acct[acc], b.asset[as], amt)).WithIDUint64(id)
			tx.Metadata = metadata.Metadata{}
			l := ledger.NewTransactionLog(tx, map[string]metadata.Metadata{}).ChainLog(prev)
			out = append(out, l)
			prev = l
			id++
		}
	}
	return out
}

// symbols outside the binding's table (the accounts of the wide lists) get a name derived from the symbol
func acctOf(b binding, sym string) string {
	if a, ok := b.acct[sym]; ok {
		return a
	}
	if b.name == "odd-forms" {
		return "wide:" + sym + ":x_1"
	}
	return "wide:" + sym
}

func concrete(ps []post, b binding) ledger.Postings {
	out := ledger.Postings{}
	for _, p := range ps {
		out = append(out, ledger.NewPosting(acctOf(b, p.Src), acctOf(b, p.Dst), b.asset[p.Asset], new(big.Int).Mul(big.NewInt(p.Amt), b.factor)))
	}
	return out
}

func samePostings(a, b ledger.Postings) bool {
	if len(a) != len(b) {
		return false
	}
	for i := range a {
		if a[i].Source != b[i].Source || a[i].Destination != b[i].Destination || a[i].Asset != b[i].Asset || a[i].Amount.Cmp(b[i].Amount) != 0 {
			return false
		}
	}
	return true
}

type c09obs struct {
	Entry      string `json:"entry"`
	Binding    string `json:"binding"`
	Accepted   bool   `json:"accepted"`
	PostsExact bool   `json:"postsExact"`
	RestExact  bool   `json:"restExact"`
	LogsAdded  int    `json:"logsAdded"`
	LogExact   bool   `json:"logExact"`
	Detail     string `json:"detail"`
}

var fixedTime = ledger.Time{Time: time.Date(2023, 3, 4, 5, 6, 7, 123456000, time.UTC)}

func lastTx(st *vstore.Store) (*ledger.Transaction, bool) {
	logs := st.Logs()
	if len(logs) == 0 {
		return nil, false
	}
	if p, ok := logs[len(logs)-1].Data.(ledger.NewTransactionLogPayload); ok {
		return p.Transaction, true
	}
	return nil, false
}

func submit(entry string, c c09case, b binding) c09obs {
	o := c09obs{Entry: entry, Binding: b.name}
	seeds := seedBalances(c.Bal, b)
	cmd, st := apiback.NewEngine(nil, seeds...)
	defer func() { go func() { defer func() { _ = recover() }(); cmd.Close() }() }()
	want := concrete(c.Posts, b)
	md := metadata.Metadata{"purpose": "c09", "k": "v"}
	ref := "ref-001"
	before := len(st.Logs())
	// "bulk-after": the postings follow, in one bulk, an element rich in everything they leave out
	// (reference, timestamp, other metadata keys, other accounts): nothing of it may end up in them
	bare := entry == "bulk-after"
	decoyTime := ledger.Time{Time: time.Date(2031, 1, 2, 3, 4, 5, 0, time.UTC)}
	decoyOK := false
	var got *ledger.Transaction
	var err error
	func() {
		defer func() {
			if e := recover(); e != nil {
				err = fmt.Errorf("panic: %v", e)
			}
		}()
		switch entry {
		case "commander":
			got, err = cmd.CreateTransaction(context.Background(), command.Parameters{},
				ledger.TxToScriptData(ledger.TransactionData{Postings: want, Metadata: md, Reference: ref, Timestamp: fixedTime}, false))
		default:
			body, _ := json.Marshal(map[string]any{"postings": want, "metadata": md, "reference": ref, "timestamp": fixedTime})
			if bare {
				md = metadata.Metadata{"purpose": "c09"}
				body, _ = json.Marshal(map[string]any{"postings": want, "metadata": md})
			}
			url := "/api/ledger/v2/l1/transactions"
			payload := string(body)
			if entry == "v1" {
				url = "/api/ledger/l1/transactions"
			}
			if entry == "bulk" {
				url = "/api/ledger/v2/l1/_bulk"
				payload = `[{"action":"CREATE_TRANSACTION","data":` + string(body) + `}]`
			}
			if bare {
				url = "/api/ledger/v2/l1/_bulk?continueOnFailure=true"
				decoy, _ := json.Marshal(map[string]any{"postings": []any{map[string]any{"source": "world", "destination": "decoy:account", "amount": 7, "asset": "DECOY/2"}},
					"metadata": map[string]string{"decoy": "1", "k": "decoy"}, "reference": "decoy-ref", "timestamp": decoyTime})
				payload = `[{"action":"CREATE_TRANSACTION","ik":"decoy-key","data":` + string(decoy) + `},{"action":"CREATE_TRANSACTION","data":` + string(body) + `}]`
			}
			r := newRouter(&apiback.Backend{Rec: &apiback.Recorder{}, Writers: map[string]apiback.Writer{"*": cmd}}, false)
			req := httptest.NewRequest("POST", url, strings.NewReader(payload))
			req.Header.Set("Content-Type", "application/json")
			w := httptest.NewRecorder()
			r.ServeHTTP(w, req)
			var resp struct {
				Data json.RawMessage `json:"data"`
			}
			_ = json.Unmarshal(w.Body.Bytes(), &resp)
			raw := resp.Data
			if bare {
				var rs []struct {
					Data      json.RawMessage `json:"data"`
					ErrorCode string          `json:"errorCode"`
				}
				_ = json.Unmarshal(resp.Data, &rs)
				decoyOK = len(rs) >= 1 && rs[0].ErrorCode == "" && len(rs[0].Data) > 0
				if len(rs) != 2 || rs[1].ErrorCode != "" || len(rs[1].Data) == 0 {
					err = fmt.Errorf("bulk element failed (http %d)", w.Code)
					return
				}
				tx := &ledger.Transaction{}
				if e := json.Unmarshal(rs[1].Data, tx); e != nil {
					err = fmt.Errorf("cannot read the answered transaction: %v", e)
					return
				}
				got = tx
				return
			}
			if w.Code >= 300 {
				err = fmt.Errorf("http %d %s", w.Code, strings.TrimSpace(w.Body.String()))
				return
			}
			if entry == "bulk" {
				var rs []struct {
					Data      json.RawMessage `json:"data"`
					ErrorCode string          `json:"errorCode"`
				}
				_ = json.Unmarshal(resp.Data, &rs)
				if len(rs) != 1 || rs[0].ErrorCode != "" {
					err = fmt.Errorf("bulk element failed")
					return
				}
				raw = rs[0].Data
			}
			if entry == "v1" { // v1 answers with a list of transactions
				var list []json.RawMessage
				if json.Unmarshal(raw, &list) == nil && len(list) == 1 {
					raw = list[0]
				}
			}
			tx := &ledger.Transaction{}
			if e := json.Unmarshal(raw, tx); e != nil {
				err = fmt.Errorf("cannot read the answered transaction: %v", e)
				return
			}
			got = tx
		}
	}()
	o.LogsAdded = len(st.Logs()) - before
	if bare {
		if !decoyOK {
			o.Detail = "the first element of the bulk (a plain world -> decoy:account transaction) was not committed"
			o.LogsAdded = -1
			return o
		}
		o.LogsAdded-- // the decoy's own entry
	}
	if err != nil {
		o.Detail = err.Error()
		return o
	}
	o.Accepted = true
	o.PostsExact = samePostings(got.Postings, want)
	o.RestExact = got.Reference == ref && got.Timestamp.Equal(fixedTime) && got.Metadata["purpose"] == "c09" && got.Metadata["k"] == "v" && len(got.Metadata) == 2
	if bare {
		o.RestExact = got.Reference == "" && !got.Timestamp.Equal(decoyTime) && got.Metadata["purpose"] == "c09" && len(got.Metadata) == 1
	}
	if tx, ok := lastTx(st); ok && o.LogsAdded == 1 {
		o.LogExact = samePostings(tx.Postings, want) && tx.Reference == ref && tx.Timestamp.Equal(fixedTime) && len(tx.Metadata) == 2
		if bare {
			o.LogExact = samePostings(tx.Postings, want) && tx.Reference == "" && !tx.Timestamp.Equal(decoyTime) && len(tx.Metadata) == 1
		}
	}
	if !o.PostsExact {
		b, _ := json.Marshal(got.Postings)
		o.Detail = "committed " + string(b)
	}
	return o
}

func modeC09(in, out, stats string) {
	f, err := os.Open(in)
	if err != nil {
		fmt.Fprintln(os.Stderr, err)
		os.Exit(2)
	}
	of, _ := os.Create(out)
	w := bufio.NewWriter(of)
	sc := bufio.NewScanner(f)
	sc.Buffer(make([]byte, 1<<20), 1<<24)
	n, subs, acc := 0, 0, 0
	var samples []any
	for sc.Scan() {
		var c c09case
		if err := json.Unmarshal(sc.Bytes(), &c); err != nil {
			fmt.Fprintln(os.Stderr, "bad case", err)
			os.Exit(2)
		}
		obs := []c09obs{}
		// every case through the Commander with every binding; the HTTP entry points on a rotating binding
		for _, b := range bindings {
			obs = append(obs, submit("commander", c, b))
		}
		for i, e := range []string{"v2", "v1", "bulk", "bulk-after"} {
			obs = append(obs, submit(e, c, bindings[(n+i)%len(bindings)]))
		}
		for _, o := range obs {
			subs++
			if o.Accepted {
				acc++
			}
		}
		line := map[string]any{"posts": c.Posts, "bal": c.Bal, "exp": c.Exp, "obs": obs}
		if len(samples) < 2 && len(c.Posts) == 2 && c.Exp.Ok {
			samples = append(samples, line)
		}
		b, _ := json.Marshal(line)
		w.Write(b)
		w.WriteByte('\n')
		n++
	}
	w.Flush()
	of.Close()
	st, _ := json.MarshalIndent(map[string]any{"cases": n, "submissions": subs, "accepted": acc, "samples": samples}, "", " ")
	os.WriteFile(stats, st, 0o644)
}
