package main

func modeC09(in, out, stats string) { panic("not built yet") }
