package main

