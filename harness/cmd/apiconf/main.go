// apiconf drives the real HTTP routers (internal/api) for C19, C18 and C09.
//
//	-mode routes : extract the route table of api.NewRouter (chi.Walk) as NDJSON
//	-mode c19    : serve every request enumerated by TLC (Router.tla) through
//	               api.NewRouter(readOnly=true) and (readOnly=false) over a recording backend
package main

import (
	"bufio"
	"encoding/json"
	"flag"
	"fmt"
	"net/http"
	"net/http/httptest"
	"os"
	"reflect"
	"runtime"
	"strings"

	"github.com/formancehq/ledger/internal/api"
	"github.com/formancehq/ledger/internal/opentelemetry/metrics"
	"github.com/formancehq/ledger/verifharness/apiback"
	"github.com/formancehq/stack/libs/go-libs/auth"
	"github.com/formancehq/stack/libs/go-libs/health"
	"github.com/go-chi/chi/v5"
)

func newRouter(b *apiback.Backend, readOnly bool) chi.Router {
	return api.NewRouter(b, health.NewHealthController([]health.NamedCheck{}), metrics.NewNoOpRegistry(), auth.NewNoAuth(), readOnly)
}

var writeHandlers = map[string]bool{
	"postTransaction": true, "revertTransaction": true, "postAccountMetadata": true, "deleteAccountMetadata": true,
	"postTransactionMetadata": true, "deleteTransactionMetadata": true, "bulkHandler": true,
}

type route struct {
	Ver     string `json:"ver"`
	Method  string `json:"method"`
	Pattern string `json:"pattern"`
	Handler string `json:"handler"`
	Write   bool   `json:"write"`
}

func handlerName(h http.Handler) string {
	v := reflect.ValueOf(h)
	name := ""
	if v.Kind() == reflect.Func {
		if f := runtime.FuncForPC(v.Pointer()); f != nil {
			name = f.Name()
		}
	}
	if i := strings.LastIndex(name, "/"); i >= 0 {
		name = name[i+1:]
	}
	if i := strings.Index(name, "."); i >= 0 {
		name = name[i+1:]
	}
	return strings.TrimSuffix(name, "-fm")
}

func routes() []route {
	r := newRouter(&apiback.Backend{Rec: &apiback.Recorder{}}, false)
	var out []route
	_ = chi.Walk(r, func(method, pattern string, handler http.Handler, _ ...func(http.Handler) http.Handler) error {
		pattern = strings.ReplaceAll(pattern, "/*/", "/")
		ver := "v1"
		rest := strings.TrimPrefix(pattern, "/api/ledger")
		if strings.HasPrefix(rest, "/v2") {
			ver, rest = "v2", strings.TrimPrefix(rest, "/v2")
		}
		if rest == "" {
			rest = "/"
		}
		if len(rest) > 1 {
			rest = strings.TrimSuffix(rest, "/")
		}
		h := handlerName(handler)
		out = append(out, route{Ver: ver, Method: method, Pattern: rest, Handler: h, Write: writeHandlers[h]})
		return nil
	})
	return out
}

type serveExp struct {
	Status string `json:"status"`
	Write  bool   `json:"write"`
}

type c19case struct {
	Ver     string   `json:"ver"`
	Pattern string   `json:"pattern"`
	Method  string   `json:"method"`
	Variant string   `json:"variant"`
	ExpRO   serveExp `json:"expRO"`
	ExpRW   serveExp `json:"expRW"`
}

type served struct {
	Status    int      `json:"status"`
	Writes    int      `json:"writes"`
	DryWrites int      `json:"dryWrites"`
	Calls     []string `json:"calls"`
}

const txBody = `{"postings":[{"source":"world","destination":"bank","amount":100,"asset":"USD"}],"metadata":{"k":"v"}}`
const bulkBody = `[{"action":"CREATE_TRANSACTION","data":{"postings":[{"source":"world","destination":"bank","amount":100,"asset":"USD"}]}},` +
	`{"action":"ADD_METADATA","data":{"targetType":"ACCOUNT","targetId":"bank","metadata":{"k":"v"}}},` +
	`{"action":"REVERT_TRANSACTION","data":{"id":0}},` +
	`{"action":"DELETE_METADATA","data":{"targetType":"ACCOUNT","targetId":"bank","key":"k"}}]`

func buildRequest(c c19case) *http.Request {
	path := c.Pattern
	path = strings.ReplaceAll(path, "{ledger}", "l1")
	path = strings.ReplaceAll(path, "{id}", "0")
	path = strings.ReplaceAll(path, "{address}", "users:001")
	path = strings.ReplaceAll(path, "{key}", "k")
	prefix := "/api/ledger"
	if c.Ver == "v2" {
		prefix += "/v2"
	}
	if path == "/" {
		path = ""
	}
	url := prefix + path
	body := `{"k":"v"}`
	switch {
	case strings.HasSuffix(c.Pattern, "/_bulk"):
		body = bulkBody
	case strings.HasSuffix(c.Pattern, "/transactions"), strings.HasSuffix(c.Pattern, "/transactions/batch"):
		body = txBody
	}
	q := ""
	switch c.Variant {
	case "override-query":
		q = "?_method=POST&method=POST"
	case "dry-run-query":
		q = "?dryRun=true&preview=true"
	case "dry-run-yes":
		q = "?dryRun=yes&preview=1"
	case "dry-run-only": // the v2 name alone (on v1 routes it means nothing)
		q = "?dryRun=true"
	case "preview-only": // the v1 name alone (on v2 routes it means nothing)
		q = "?preview=true"
	case "force-query":
		q = "?force=true&continueOnFailure=true"
	case "trailing-slash":
		url += "/"
	case "double-slash":
		url = strings.Replace(url, "/l1/", "/l1//", 1)
	}
	method := c.Method
	req := httptest.NewRequest(method, url+q, strings.NewReader(body))
	req.Header.Set("Content-Type", "application/json")
	if strings.HasPrefix(c.Variant, "override-header") {
		to := "POST"
		if i := strings.LastIndex(c.Variant, ":"); i >= 0 {
			to = c.Variant[i+1:]
		}
		for _, h := range []string{"X-HTTP-Method-Override", "X-HTTP-Method", "X-Method-Override"} {
			req.Header.Set(h, to)
		}
	}
	return req
}

func serve(r chi.Router, rec *apiback.Recorder, c c19case) (out served) {
	defer func() {
		if e := recover(); e != nil {
			out.Status = 599
		}
		for _, call := range rec.Take() {
			if apiback.WriteMethods[call.Method] {
				if call.DryRun {
					out.DryWrites++
				} else {
					out.Writes++
				}
				out.Calls = append(out.Calls, call.Method)
			}
		}
		if out.Calls == nil {
			out.Calls = []string{}
		}
	}()
	w := httptest.NewRecorder()
	r.ServeHTTP(w, buildRequest(c))
	out.Status = w.Code
	return
}

func modeC19(in, out, stats string) {
	f, err := os.Open(in)
	if err != nil {
		fmt.Fprintln(os.Stderr, err)
		os.Exit(2)
	}
	recRO, recRW := &apiback.Recorder{}, &apiback.Recorder{}
	ro := newRouter(&apiback.Backend{Rec: recRO}, true)
	rw := newRouter(&apiback.Backend{Rec: recRW}, false)
	of, _ := os.Create(out)
	w := bufio.NewWriter(of)
	sc := bufio.NewScanner(f)
	sc.Buffer(make([]byte, 1<<20), 1<<24)
	n, rwWrites, roRejected := 0, map[string]int{}, 0
	var sample []any
	for sc.Scan() {
		var c c19case
		if err := json.Unmarshal(sc.Bytes(), &c); err != nil {
			fmt.Fprintln(os.Stderr, "bad case", err)
			os.Exit(2)
		}
		a, b := serve(ro, recRO, c), serve(rw, recRW, c)
		n++
		if a.Status == 400 {
			roRejected++
		}
		for _, m := range b.Calls {
			rwWrites[m]++
		}
		line := map[string]any{"ver": c.Ver, "pattern": c.Pattern, "method": c.Method, "variant": c.Variant,
			"bulk": strings.HasSuffix(c.Pattern, "/_bulk") || strings.HasSuffix(c.Pattern, "/batch"),
			"expRO": c.ExpRO, "expRW": c.ExpRW, "ro": a, "rw": b}
		if len(sample) < 3 && c.ExpRW.Write {
			sample = append(sample, line)
		}
		bts, _ := json.Marshal(line)
		w.Write(bts)
		w.WriteByte('\n')
	}
	w.Flush()
	of.Close()
	st, _ := json.MarshalIndent(map[string]any{"requests": n, "writes_reached_without_read_only": rwWrites,
		"rejected_in_read_only": roRejected, "samples": sample}, "", " ")
	os.WriteFile(stats, st, 0o644)
}

func main() {
	mode := flag.String("mode", "", "routes | c19 | c18 | c09")
	in := flag.String("in", "", "input cases (ndjson)")
	out := flag.String("out", "", "output (ndjson)")
	stats := flag.String("stats", "", "stats (json)")
	flag.Parse()
	switch *mode {
	case "routes":
		of, err := os.Create(*out)
		if err != nil {
			os.Exit(2)
		}
		for _, r := range routes() {
			b, _ := json.Marshal(r)
			of.Write(append(b, '\n'))
		}
		of.Close()
	case "c19":
		modeC19(*in, *out, *stats)
	case "c18":
		modeC18(*in, *out, *stats)
	case "c09":
		modeC09(*in, *out, *stats)
	default:
		fmt.Fprintln(os.Stderr, "unknown mode")
		os.Exit(2)
	}
}
