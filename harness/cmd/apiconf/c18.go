package main

import (
	"bufio"
	"context"
	"encoding/json"
	"fmt"
	"math/big"
	"net/http/httptest"
	"os"
	"strconv"
	"strings"
	"sync"

	ledger "github.com/formancehq/ledger/internal"
	"github.com/formancehq/ledger/internal/engine/command"
	"github.com/formancehq/ledger/verifharness/apiback"
	"github.com/formancehq/stack/libs/go-libs/metadata"
)

// C18: every bulk enumerated by Bulk.tla is POSTed to the real v2 router; the
// backend's write methods are executed by a real Commander and every call is
// recorded with the element it belongs to and whether it failed.

type bulkElem struct {
	Kind string `json:"kind"`
	Fail bool   `json:"fail"`
}

type bulkCase struct {
	Bulk []bulkElem `json:"bulk"`
	Cont bool       `json:"cont"`
	Pat  string     `json:"pat"` // which positions carry attributes of their own: none | all | odd | even
}

// what the backend was handed: the element (el), whether the call failed, the idempotency key and - for
// CREATE - the other per-element attributes (reference, timestamp, the extra metadata key) as one string:
// "<pos>" when all three are the element's own, "" when none is present, anything else is a mixture
type callObs struct {
	El   int    `json:"el"`
	Err  bool   `json:"err"`
	Ik   string `json:"ik"`
	Attr string `json:"attr"`
}

func rich(pat string, pos int) bool {
	return pat == "all" || (pat == "odd" && pos%2 == 1) || (pat == "even" && pos%2 == 0)
}

// tagging writer: records, for each backend write call, the element it came
// from (the harness puts the element position into the call's arguments).
type tagWriter struct {
	mu    sync.Mutex
	inner apiback.Writer
	calls []callObs
}

func (t *tagWriter) note(el int, err error, p command.Parameters, attr string) {
	t.mu.Lock()
	t.calls = append(t.calls, callObs{El: el, Err: err != nil, Ik: p.IdempotencyKey, Attr: attr})
	t.mu.Unlock()
}

func (t *tagWriter) CreateTransaction(ctx context.Context, p command.Parameters, data ledger.RunScript) (*ledger.Transaction, error) {
	tx, err := t.inner.CreateTransaction(ctx, p, data)
	el, _ := strconv.Atoi(data.Metadata["el"])
	// reference "ref-<pos>", timestamp day <pos> of 2030-01, metadata extra = "<pos>"
	attr := ""
	if data.Reference != "" || !data.Timestamp.IsZero() || data.Metadata["extra"] != "" {
		ref := strings.TrimPrefix(data.Reference, "ref-")
		if ref == data.Metadata["extra"] && !data.Timestamp.IsZero() && strconv.Itoa(data.Timestamp.Day()) == ref {
			attr = ref
		} else {
			attr = fmt.Sprintf("mixed:ref=%s,ts=%v,extra=%s", data.Reference, data.Timestamp, data.Metadata["extra"])
		}
	}
	t.note(el, err, p, attr)
	return tx, err
}
func (t *tagWriter) RevertTransaction(ctx context.Context, p command.Parameters, id *big.Int, force bool) (*ledger.Transaction, error) {
	tx, err := t.inner.RevertTransaction(ctx, p, id, force)
	t.note(int(id.Int64()%100), err, p, "") // seeded transaction k is reverted by element k; 900+k for failing ones
	return tx, err
}
func (t *tagWriter) SaveMeta(ctx context.Context, p command.Parameters, targetType string, targetID any, m metadata.Metadata) error {
	err := t.inner.SaveMeta(ctx, p, targetType, targetID, m)
	el, _ := strconv.Atoi(m["el"])
	t.note(el, err, p, "")
	return err
}
func (t *tagWriter) DeleteMetadata(ctx context.Context, p command.Parameters, targetType string, targetID any, key string) error {
	err := t.inner.DeleteMetadata(ctx, p, targetType, targetID, key)
	el, _ := strconv.Atoi(strings.TrimPrefix(key, "k"))
	t.note(el, err, p, "")
	return err
}

func seedTxs(n int) []*ledger.ChainedLog {
	var prev *ledger.ChainedLog
	out := []*ledger.ChainedLog{}
	for i := 0; i < n; i++ {
		tx := ledger.NewTransaction().WithPostings(ledger.NewPosting("world", fmt.Sprintf("seed:%d", i), "USD", big.NewInt(10))).WithIDUint64(uint64(i))
		tx.Metadata = metadata.Metadata{}
		l := ledger.NewTransactionLog(tx, map[string]metadata.Metadata{}).ChainLog(prev)
		out = append(out, l)
		prev = l
	}
	return out
}

func elementJSON(i int, e bulkElem, pat string) string {
	pos := i + 1
	key, extra := "", ""
	if rich(pat, pos) {
		if pat == "all" {
			key = fmt.Sprintf(`"ik":"key-%s",`, e.Kind)
		} else {
			key = fmt.Sprintf(`"ik":"key-%d",`, pos)
		}
		extra = fmt.Sprintf(`,"reference":"ref-%d","timestamp":"2030-01-%02dT00:00:00Z"`, pos, pos)
	}
	switch e.Kind {
	case "CREATE":
		src, amt := "world", 1
		if e.Fail {
			src, amt = "nobody", 100
		}
		mdExtra := ""
		if extra != "" {
			mdExtra = fmt.Sprintf(`,"extra":"%d"`, pos)
		}
		if pos%3 == 0 {
			// every third position: the transaction given both as postings and as the equivalent script
			return fmt.Sprintf(`{"action":"CREATE_TRANSACTION",%s"data":{"postings":[{"source":"%s","destination":"bank","amount":%d,"asset":"USD"}],"script":{"plain":"send [USD %d] (\n source = @%s\n destination = @bank\n)\n"},"metadata":{"el":"%d"%s}%s}}`, key, src, amt, amt, src, pos, mdExtra, extra)
		}
				return fmt.Sprintf(`{"action":"CREATE_TRANSACTION",%s"data":{"postings":[{"source":"%s","destination":"bank","amount":%d,"asset":"USD"}],"metadata":{"el":"%d"%s}%s}}`, key, src, amt, pos, mdExtra, extra)
	case "ADD_META":
		if e.Fail {
			return fmt.Sprintf(`{"action":"ADD_METADATA",%s"data":{"targetType":"TRANSACTION","targetId":999,"metadata":{"el":"%d"}}}`, key, pos)
		}
		return fmt.Sprintf(`{"action":"ADD_METADATA",%s"data":{"targetType":"ACCOUNT","targetId":"bank","metadata":{"el":"%d"}}}`, key, pos)
	case "REVERT":
		id := pos // seeded transaction number pos (distinct per element)
		if e.Fail {
			id = 900 + pos
		}
		return fmt.Sprintf(`{"action":"REVERT_TRANSACTION",%s"data":{"id":%d}}`, key, id)
	case "DEL_META":
		if e.Fail {
			return fmt.Sprintf(`{"action":"DELETE_METADATA",%s"data":{"targetType":"TRANSACTION","targetId":999,"key":"k%d"}}`, key, pos)
		}
		return fmt.Sprintf(`{"action":"DELETE_METADATA",%s"data":{"targetType":"ACCOUNT","targetId":"bank","key":"k%d"}}`, key, pos)
	case "UNKNOWN":
		return fmt.Sprintf(`{"action":"FROBNICATE",%s"data":{"el":"%d"}}`, key, pos)
	case "MALFORMED":
		// data that cannot be decoded for its action, a different action at each position
		switch pos % 5 {
		case 1:
			return fmt.Sprintf(`{"action":"CREATE_TRANSACTION",%s"data":"not an object %d"}`, key, pos)
		case 2:
			return fmt.Sprintf(`{"action":"DELETE_METADATA",%s"data":{"targetType":"TRANSACTION","targetId":"not-a-number-%d","key":"k%d"}}`, key, pos, pos)
		case 3:
			return fmt.Sprintf(`{"action":"ADD_METADATA",%s"data":{"targetType":"ACCOUNT","targetId":{"nested":%d},"metadata":{"el":"%d"}}}`, key, pos, pos)
		case 4:
			return fmt.Sprintf(`{"action":"REVERT_TRANSACTION",%s"data":{"id":"x%d"}}`, key, pos)
		default:
			return fmt.Sprintf(`{"action":"DELETE_METADATA",%s"data":{"targetType":"ACCOUNT","targetId":%d,"key":"k%d"}}`, key, pos, pos)
		}
	}
	return `{}`
}

func runBulk(c bulkCase) map[string]any {
	cmd, _ := apiback.NewEngine(nil, seedTxs(12)...)
	defer func() { go func() { defer func() { _ = recover() }(); cmd.Close() }() }()
	tw := &tagWriter{inner: cmd}
	rec := &apiback.Recorder{}
	r := newRouter(&apiback.Backend{Rec: rec, Writers: map[string]apiback.Writer{"*": tw}}, false)
	parts := []string{}
	for i, e := range c.Bulk {
		parts = append(parts, elementJSON(i, e, c.Pat))
	}
	url := "/api/ledger/v2/l1/_bulk"
	if c.Cont {
		url += "?continueOnFailure=true"
	}
	req := httptest.NewRequest("POST", url, strings.NewReader("["+strings.Join(parts, ",")+"]"))
	req.Header.Set("Content-Type", "application/json")
	w := httptest.NewRecorder()
	status := 0
	func() {
		defer func() {
			if e := recover(); e != nil {
				status = 599
			}
		}()
		r.ServeHTTP(w, req)
		status = w.Code
	}()
	var body struct {
		Data []struct {
			ErrorCode    string `json:"errorCode"`
			ResponseType string `json:"responseType"`
		} `json:"data"`
	}
	_ = json.Unmarshal(w.Body.Bytes(), &body)
	results := []map[string]any{}
	for _, d := range body.Data {
		results = append(results, map[string]any{"ok": d.ErrorCode == "" && d.ResponseType != "ERROR", "type": d.ResponseType})
	}
	calls := tw.calls
	if calls == nil {
		calls = []callObs{}
	}
	return map[string]any{"bulk": c.Bulk, "cont": c.Cont, "pat": c.Pat, "status": status, "results": results, "calls": calls}
}

func modeC18(in, out, stats string) {
	f, err := os.Open(in)
	if err != nil {
		fmt.Fprintln(os.Stderr, err)
		os.Exit(2)
	}
	of, _ := os.Create(out)
	w := bufio.NewWriter(of)
	sc := bufio.NewScanner(f)
	sc.Buffer(make([]byte, 1<<20), 1<<24)
	n := 0
	kinds := map[string]int{}
	var samples []any
	for sc.Scan() {
		var c bulkCase
		if err := json.Unmarshal(sc.Bytes(), &c); err != nil {
			fmt.Fprintln(os.Stderr, "bad case", err)
			os.Exit(2)
		}
		if c.Pat == "" {
			c.Pat = "none"
		}
		{
			res := runBulk(c)
			n++
			for _, e := range c.Bulk {
				kinds[e.Kind]++
			}
			if len(samples) < 2 && len(c.Bulk) == 3 {
				samples = append(samples, res)
			}
			b, _ := json.Marshal(res)
			w.Write(b)
			w.WriteByte('\n')
		}
	}
	w.Flush()
	of.Close()
	st, _ := json.MarshalIndent(map[string]any{"bulks": n, "elements_by_kind": kinds, "samples": samples}, "", " ")
	os.WriteFile(stats, st, 0o644)
}
