// pageconf binds spec/Paginate.tla to libs/bun/bunpaginate (C17): every traversal
// enumerated by TLC (collection, order, page size, word over next/previous) is
// executed with the real UsingColumn / UsingOffset over the fake SQL driver,
// following the cursor tokens the real code hands out (decoded with
// UnmarshalCursor, as the endpoints do).
package main

import (
	"net/url"
	"net/http/httptest"
	"bufio"
	"context"
	"encoding/json"
	"flag"
	"fmt"
	"math/big"
	"os"

	"github.com/formancehq/ledger/verifharness/fakepg"
	sharedapi "github.com/formancehq/stack/libs/go-libs/api"
	"github.com/formancehq/stack/libs/go-libs/bun/bunpaginate"
	"github.com/uptrace/bun"
)

type item struct {
	bun.BaseModel `bun:"table:items"`
	ID            *bunpaginate.BigInt `bun:"id,type:numeric"`
}

type step struct {
	K       int     `json:"k"`
	Data    []int64 `json:"data"`
	HasMore bool    `json:"hasMore"`
	HasPrev bool    `json:"hasPrev"`
	Canon   []int64 `json:"canon"`
}

type pcase struct {
	Mode  string   `json:"mode"`
	Coll  []int64  `json:"coll"`
	Order string   `json:"order"`
	Ps    uint64   `json:"ps"`
	Word  []string `json:"word"`
	Steps []step   `json:"steps"`
}

type obs struct {
	Data      []int64 `json:"data"`
	HasMore   bool    `json:"hasMore"`
	HasNext   bool    `json:"hasNext"`
	HasPrev   bool    `json:"hasPrev"`
	RoundTrip bool    `json:"cursorsRoundTrip"`
	Err       string  `json:"err"`
}

type opts struct {
	Tag string `json:"tag"`
}

func ids(c *sharedapi.Cursor[item]) []int64 {
	out := []int64{}
	for _, it := range c.Data {
		out = append(out, (*big.Int)(it.ID).Int64())
	}
	return out
}

func roundTrip[Q any](token string) bool {
	if token == "" {
		return true
	}
	var q Q
	if err := bunpaginate.UnmarshalCursor(token, &q); err != nil {
		return false
	}
	return bunpaginate.EncodeCursor(q) == token
}

func runCase(db *bun.DB, srv *fakepg.Server, c pcase) []obs {
	srv.IDs = c.Coll
	order := bunpaginate.Order(bunpaginate.OrderAsc)
	if c.Order == "desc" {
		order = bunpaginate.OrderDesc
	}
	out := []obs{}
	ctx := context.Background()
	fetchCol := func(q bunpaginate.ColumnPaginatedQuery[opts]) (*sharedapi.Cursor[item], error) {
		return bunpaginate.UsingColumn[opts, item](ctx, db.NewSelect().Model(&[]item{}).Column("id"), q)
	}
	fetchOff := func(q bunpaginate.OffsetPaginatedQuery[opts]) (*sharedapi.Cursor[item], error) {
		sb := db.NewSelect().Model(&[]item{}).Column("id").OrderExpr("id " + order.String())
		return bunpaginate.UsingOffset[opts, item](ctx, sb, q)
	}
	var cur *sharedapi.Cursor[item]
	var err error
	colQ := bunpaginate.ColumnPaginatedQuery[opts]{PageSize: c.Ps, Column: "id", Order: order, Options: opts{Tag: "t"}}
	offQ := bunpaginate.OffsetPaginatedQuery[opts]{PageSize: c.Ps, Order: order, Options: opts{Tag: "t"}}
	fetch := func() {
		if c.Mode == "column" {
			cur, err = fetchCol(colQ)
		} else {
			cur, err = fetchOff(offQ)
		}
	}
	record := func() bool {
		if err != nil {
			out = append(out, obs{Err: err.Error(), Data: []int64{}})
			return false
		}
		rt := false
		if c.Mode == "column" {
			rt = roundTrip[bunpaginate.ColumnPaginatedQuery[opts]](cur.Next) && roundTrip[bunpaginate.ColumnPaginatedQuery[opts]](cur.Previous)
		} else {
			rt = roundTrip[bunpaginate.OffsetPaginatedQuery[opts]](cur.Next) && roundTrip[bunpaginate.OffsetPaginatedQuery[opts]](cur.Previous)
		}
		out = append(out, obs{Data: ids(cur), HasMore: cur.HasMore, HasNext: cur.Next != "", HasPrev: cur.Previous != "", RoundTrip: rt})
		return true
	}
	fetch()
	if !record() {
		return out
	}
	for _, w := range c.Word {
		token := cur.Next
		if w == "P" {
			token = cur.Previous
		}
		if token == "" {
			break
		}
		if c.Mode == "column" {
			colQ = bunpaginate.ColumnPaginatedQuery[opts]{}
			err = bunpaginate.UnmarshalCursor(token, &colQ)
		} else {
			offQ = bunpaginate.OffsetPaginatedQuery[opts]{}
			err = bunpaginate.UnmarshalCursor(token, &offQ)
		}
		if err != nil {
			out = append(out, obs{Err: "cursor rejected: " + err.Error(), Data: []int64{}})
			return out
		}
		fetch()
		if !record() {
			return out
		}
	}
	return out
}

func main() {
	in := flag.String("in", "", "cases")
	outp := flag.String("out", "", "results")
	stats := flag.String("stats", "", "stats")
	flag.Parse()
	f, err := os.Open(*in)
	if err != nil {
		fmt.Fprintln(os.Stderr, err)
		os.Exit(2)
	}
	srv := &fakepg.Server{}
	db := fakepg.Open(srv)
	of, _ := os.Create(*outp)
	w := bufio.NewWriter(of)
	sc := bufio.NewScanner(f)
	sc.Buffer(make([]byte, 1<<20), 1<<24)
	n, pages := 0, 0
	var samples []any
	for sc.Scan() {
		var c pcase
		if err := json.Unmarshal(sc.Bytes(), &c); err != nil {
			fmt.Fprintln(os.Stderr, "bad case", err)
			os.Exit(2)
		}
		real := runCase(db, srv, c)
		srv.Take()
		n++
		pages += len(real)
		line := map[string]any{"mode": c.Mode, "coll": c.Coll, "order": c.Order, "ps": c.Ps, "word": c.Word, "steps": c.Steps, "real": real}
		if len(samples) < 2 && len(c.Coll) > 4 && len(c.Word) > 2 && c.Ps == 2 {
			samples = append(samples, line)
		}
		b, _ := json.Marshal(line)
		w.Write(b)
		w.WriteByte('\n')
	}
	// the page size a request asks for, as the controllers obtain it: whatever the parameter says, a page holds
	// at least one item or the request is refused (a page size of zero makes every traversal endless)
	for _, param := range []string{"", "0", "00", "+0", "1", "15", "1000", "4294967295", "4294967296", "-1", "abc", "1.5", " 3"} {
		req := httptest.NewRequest("GET", "/x?pageSize="+url.QueryEscape(param), nil)
		if param == "" {
			req = httptest.NewRequest("GET", "/x", nil)
		}
		size, err := bunpaginate.GetPageSize(req)
		line := map[string]any{"mode": "pagesize", "steps": []any{}, "real": []any{}, "pageSizeParam": param, "pageSize": size, "pageSizeErr": err != nil}
		b, _ := json.Marshal(line)
		w.Write(b)
		w.WriteByte('\n')
	}
	w.Flush()
	of.Close()
	st, _ := json.MarshalIndent(map[string]any{"traversals": n, "pages_fetched": pages, "samples": samples}, "", " ")
	os.WriteFile(*stats, st, 0o644)
}
