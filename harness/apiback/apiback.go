// Package apiback provides harness implementations of backend.Backend /
// backend.Ledger for driving the real HTTP routers:
//   - Recording: counts the calls reaching every method (C19),
//   - Engine:    write methods are executed by a real command.Commander over
//                the harness store (C18, C09).
package apiback

import (
	"context"
	"fmt"
	"io"
	"math/big"
	"sync"

	ledger "github.com/formancehq/ledger/internal"
	"github.com/formancehq/ledger/internal/api/backend"
	"github.com/formancehq/ledger/internal/bus"
	"github.com/formancehq/ledger/internal/engine"
	"github.com/formancehq/ledger/internal/engine/command"
	"github.com/formancehq/ledger/internal/storage/driver"
	"github.com/formancehq/ledger/internal/storage/ledgerstore"
	"github.com/formancehq/ledger/internal/storage/sqlutils"
	"github.com/formancehq/ledger/internal/storage/systemstore"
	"github.com/formancehq/ledger/verifharness/vstore"
	sharedapi "github.com/formancehq/stack/libs/go-libs/api"
	"github.com/formancehq/stack/libs/go-libs/logging"
	"github.com/formancehq/stack/libs/go-libs/metadata"
	"github.com/formancehq/stack/libs/go-libs/migrations"
	"github.com/sirupsen/logrus"
)

// Call is one call that reached the backend.
type Call struct {
	Method string `json:"method"`
	Ledger string `json:"ledger"`
	DryRun bool   `json:"dryRun"`
	Detail string `json:"detail"`
}

// Recorder collects backend calls.
type Recorder struct {
	mu    sync.Mutex
	Calls []Call
}

func (r *Recorder) add(c Call) {
	r.mu.Lock()
	r.Calls = append(r.Calls, c)
	r.mu.Unlock()
}

func (r *Recorder) Take() []Call {
	r.mu.Lock()
	defer r.mu.Unlock()
	out := r.Calls
	r.Calls = nil
	return out
}

// WriteMethods are the backend.Ledger methods that change a ledger.
var WriteMethods = map[string]bool{"CreateTransaction": true, "RevertTransaction": true, "SaveMeta": true, "DeleteMetadata": true}

// Writer executes the write methods (nil: they only get recorded).
type Writer interface {
	CreateTransaction(ctx context.Context, parameters command.Parameters, data ledger.RunScript) (*ledger.Transaction, error)
	RevertTransaction(ctx context.Context, parameters command.Parameters, id *big.Int, force bool) (*ledger.Transaction, error)
	SaveMeta(ctx context.Context, parameters command.Parameters, targetType string, targetID any, m metadata.Metadata) error
	DeleteMetadata(ctx context.Context, parameters command.Parameters, targetType string, targetID any, key string) error
}

// Ledger implements backend.Ledger.
type Ledger struct {
	Name string
	Rec  *Recorder
	W    Writer
}

var _ backend.Ledger = (*Ledger)(nil)

func (l *Ledger) rec(m string, dry bool, detail string) {
	l.Rec.add(Call{Method: m, Ledger: l.Name, DryRun: dry, Detail: detail})
}

func (l *Ledger) GetAccountWithVolumes(ctx context.Context, q ledgerstore.GetAccountQuery) (*ledger.ExpandedAccount, error) {
	l.rec("GetAccountWithVolumes", false, "")
	return &ledger.ExpandedAccount{Account: ledger.Account{Address: q.Addr, Metadata: metadata.Metadata{}}}, nil
}
func (l *Ledger) GetAccountsWithVolumes(ctx context.Context, q ledgerstore.GetAccountsQuery) (*sharedapi.Cursor[ledger.ExpandedAccount], error) {
	l.rec("GetAccountsWithVolumes", false, "")
	return &sharedapi.Cursor[ledger.ExpandedAccount]{Data: []ledger.ExpandedAccount{}}, nil
}
func (l *Ledger) CountAccounts(ctx context.Context, q ledgerstore.GetAccountsQuery) (int, error) {
	l.rec("CountAccounts", false, "")
	return 0, nil
}
func (l *Ledger) GetAggregatedBalances(ctx context.Context, q ledgerstore.GetAggregatedBalanceQuery) (ledger.BalancesByAssets, error) {
	l.rec("GetAggregatedBalances", false, "")
	return ledger.BalancesByAssets{}, nil
}
func (l *Ledger) GetMigrationsInfo(ctx context.Context) ([]migrations.Info, error) {
	l.rec("GetMigrationsInfo", false, "")
	return []migrations.Info{}, nil
}
func (l *Ledger) Stats(ctx context.Context) (engine.Stats, error) {
	l.rec("Stats", false, "")
	return engine.Stats{}, nil
}
func (l *Ledger) GetLogs(ctx context.Context, q ledgerstore.GetLogsQuery) (*sharedapi.Cursor[ledger.ChainedLog], error) {
	l.rec("GetLogs", false, "")
	return &sharedapi.Cursor[ledger.ChainedLog]{Data: []ledger.ChainedLog{}}, nil
}
func (l *Ledger) CountTransactions(ctx context.Context, q ledgerstore.GetTransactionsQuery) (int, error) {
	l.rec("CountTransactions", false, "")
	return 0, nil
}
func (l *Ledger) GetTransactions(ctx context.Context, q ledgerstore.GetTransactionsQuery) (*sharedapi.Cursor[ledger.ExpandedTransaction], error) {
	l.rec("GetTransactions", false, "")
	return &sharedapi.Cursor[ledger.ExpandedTransaction]{Data: []ledger.ExpandedTransaction{}}, nil
}
func (l *Ledger) GetTransactionWithVolumes(ctx context.Context, q ledgerstore.GetTransactionQuery) (*ledger.ExpandedTransaction, error) {
	l.rec("GetTransactionWithVolumes", false, "")
	tx := ledger.NewTransaction()
	tx.ID = q.ID
	return &ledger.ExpandedTransaction{Transaction: *tx}, nil
}

func (l *Ledger) CreateTransaction(ctx context.Context, p command.Parameters, data ledger.RunScript) (*ledger.Transaction, error) {
	l.rec("CreateTransaction", p.DryRun, data.Plain)
	if l.W != nil {
		return l.W.CreateTransaction(ctx, p, data)
	}
	return ledger.NewTransaction().WithIDUint64(0), nil
}
func (l *Ledger) RevertTransaction(ctx context.Context, p command.Parameters, id *big.Int, force bool) (*ledger.Transaction, error) {
	l.rec("RevertTransaction", p.DryRun, fmt.Sprint(id, force))
	if l.W != nil {
		return l.W.RevertTransaction(ctx, p, id, force)
	}
	return ledger.NewTransaction().WithIDUint64(1), nil
}
func (l *Ledger) SaveMeta(ctx context.Context, p command.Parameters, targetType string, targetID any, m metadata.Metadata) error {
	l.rec("SaveMeta", p.DryRun, fmt.Sprint(targetType, targetID, m))
	if l.W != nil {
		return l.W.SaveMeta(ctx, p, targetType, targetID, m)
	}
	return nil
}
func (l *Ledger) DeleteMetadata(ctx context.Context, p command.Parameters, targetType string, targetID any, key string) error {
	l.rec("DeleteMetadata", p.DryRun, fmt.Sprint(targetType, targetID, key))
	if l.W != nil {
		return l.W.DeleteMetadata(ctx, p, targetType, targetID, key)
	}
	return nil
}
func (l *Ledger) IsDatabaseUpToDate(ctx context.Context) (bool, error) { return true, nil }

// Backend implements backend.Backend: every ledger name resolves to a Ledger
// sharing the recorder (and the writer of that name, when there is one).
type Backend struct {
	Rec     *Recorder
	Writers map[string]Writer // per ledger name; "*" = default
	Known   map[string]bool   // ledgers that "exist" (others are auto-created / not found)
}

var _ backend.Backend = (*Backend)(nil)

func (b *Backend) GetLedgerEngine(ctx context.Context, name string) (backend.Ledger, error) {
	w := b.Writers[name]
	if w == nil {
		w = b.Writers["*"]
	}
	return &Ledger{Name: name, Rec: b.Rec, W: w}, nil
}
func (b *Backend) GetLedger(ctx context.Context, name string) (*systemstore.Ledger, error) {
	if b.Known != nil && !b.Known[name] {
		return nil, sqlutils.ErrNotFound
	}
	return &systemstore.Ledger{Name: name, Bucket: name}, nil
}
func (b *Backend) ListLedgers(ctx context.Context, q systemstore.ListLedgersQuery) (*sharedapi.Cursor[systemstore.Ledger], error) {
	return &sharedapi.Cursor[systemstore.Ledger]{Data: []systemstore.Ledger{}}, nil
}
func (b *Backend) CreateLedger(ctx context.Context, name string, configuration driver.LedgerConfiguration) error {
	b.Rec.add(Call{Method: "CreateLedger", Ledger: name})
	return nil
}
func (b *Backend) GetVersion() string { return "verif" }

// NewEngine builds a real Commander over a fresh harness store (ungated:
// InsertLogs persists synchronously) and starts its batch runner.
func NewEngine(monitor bus.Monitor, seed ...*ledger.ChainedLog) (*command.Commander, *vstore.Store) {
	st := vstore.New()
	st.Seed(seed...)
	if monitor == nil {
		monitor = bus.NewNoOpMonitor()
	}
	c := command.New(st, command.NewDefaultLocker(), command.NewCompiler(64), command.NewReferencer(), monitor)
	if err := c.Init(context.Background()); err != nil {
		panic(err)
	}
	l := logrus.New()
	l.SetOutput(io.Discard)
	go func() {
		defer func() { _ = recover() }()
		c.Run(logging.ContextWithLogger(context.Background(), logging.NewLogrus(l)))
	}()
	return c, st
}
