// Package tlaio reads behaviours written by TLC and writes NDJSON traces and
// per-run results for the check driver.
package tlaio

import (
	"bufio"
	"encoding/json"
	"os"
	"path/filepath"
	"sort"
	"sync"
)

// ReadNDJSON reads a file of one JSON value per line.
func ReadNDJSON(path string) ([]map[string]any, error) {
	f, err := os.Open(path)
	if err != nil {
		return nil, err
	}
	defer f.Close()
	var out []map[string]any
	sc := bufio.NewScanner(f)
	sc.Buffer(make([]byte, 1<<20), 1<<26)
	for sc.Scan() {
		line := sc.Bytes()
		if len(line) == 0 {
			continue
		}
		var m map[string]any
		if err := json.Unmarshal(line, &m); err != nil {
			return nil, err
		}
		out = append(out, m)
	}
	return out, sc.Err()
}

// ListFiles returns the sorted files of dir matching pattern.
func ListFiles(dir, pattern string) []string {
	m, _ := filepath.Glob(filepath.Join(dir, pattern))
	sort.Strings(m)
	return m
}

// Writer appends JSON lines to a file.
type Writer struct {
	mu sync.Mutex
	f  *os.File
	w *bufio.Writer
	N int
}

func NewWriter(path string) (*Writer, error) {
	if err := os.MkdirAll(filepath.Dir(path), 0o755); err != nil {
		return nil, err
	}
	f, err := os.Create(path)
	if err != nil {
		return nil, err
	}
	return &Writer{f: f, w: bufio.NewWriterSize(f, 1<<20)}, nil
}

func (w *Writer) Write(v any) error {
	b, err := json.Marshal(v)
	if err != nil {
		return err
	}
	w.mu.Lock()
	defer w.mu.Unlock()
	w.N++
	_, err = w.w.Write(append(b, '\n'))
	return err
}

func (w *Writer) Close() error {
	w.mu.Lock()
	defer w.mu.Unlock()
	if err := w.w.Flush(); err != nil {
		return err
	}
	return w.f.Close()
}

// WriteJSON writes v as indented JSON to path.
func WriteJSON(path string, v any) error {
	if err := os.MkdirAll(filepath.Dir(path), 0o755); err != nil {
		return err
	}
	b, err := json.MarshalIndent(v, "", " ")
	if err != nil {
		return err
	}
	return os.WriteFile(path, append(b, '\n'), 0o644)
}
