---------------------------- MODULE NumscriptProg ----------------------------
(* Whole programs (C08 C12, and C01 for `save`): a `vars` section (plain          *)
(* variables, meta() and balance() origins), typed expressions with + and -,        *)
(* and statements send / save / set_tx_meta / set_account_meta / fail / print.      *)
(* StaticOK is the language's typing judgement; Run gives the outcome the text      *)
(* defines for a store (balances, account metadata), the supplied variable map      *)
(* and the metadata passed along with the script.                                   *)
EXTENDS Numscript, Json, SequencesExt

\* ---- values and expressions ------------------------------------------------------
Val(ty, s, n)  == [ty |-> ty, s |-> s, n |-> n]
VAcct(a)       == Val("account", a, 0)
VMon(n)        == Val("monetary", "USD", n)
VMonIn(as, n)  == Val("monetary", as, n)
VNum(n)        == Val("number", "", n)
VStr(s)        == Val("string", s, 0)
VPor(s)        == Val("portion", s, 0)
VAsset(s)      == Val("asset", s, 0)
NoVal          == Val("none", "", 0)

Lit(v)    == [t |-> "lit", v |-> v, name |-> "", kids |-> <<>>]
Var(x)    == [t |-> "var", v |-> NoVal, name |-> x, kids |-> <<>>]
Add(a, b) == [t |-> "add", v |-> NoVal, name |-> "", kids |-> <<a, b>>]
Sub(a, b) == [t |-> "sub", v |-> NoVal, name |-> "", kids |-> <<a, b>>]
\* a monetary literal whose asset position is an expression: [<e> n]
MonLit(e, n) == [t |-> "monlit", v |-> VNum(n), name |-> "", kids |-> <<e>>]
NoExpr    == [t |-> "none", v |-> NoVal, name |-> "", kids |-> <<>>]

\* variable declarations: origin "plain" (value supplied with the request: sup = the value, or
\* NoVal when the caller omits it), "meta" (account metadata key), "balance" (account balance)
Decl(name, ty, origin, acct, key, sup) == [name |-> name, ty |-> ty, origin |-> origin, acct |-> acct, key |-> key, sup |-> sup]

\* statements (uniform records)
Stmt(k, amt, all, src, od, dst, key, val) == [k |-> k, amt |-> amt, all |-> all, src |-> src, od |-> od, dst |-> dst, key |-> key, val |-> val]
SSend(amt, src, od, dst) == Stmt("send", amt, FALSE, src, od, dst, "", NoExpr)
SSendAll(src, dst)       == Stmt("send", NoExpr, TRUE, src, -1, dst, "", NoExpr)
SSave(amt, acct)         == Stmt("save", amt, FALSE, acct, -1, NoExpr, "", NoExpr)
SSaveAll(acct)           == Stmt("save", NoExpr, TRUE, acct, -1, NoExpr, "", NoExpr)
STxMeta(key, val)        == Stmt("txmeta", NoExpr, FALSE, NoExpr, -1, NoExpr, key, val)
SAcctMeta(acct, key, val) == Stmt("acctmeta", NoExpr, FALSE, acct, -1, NoExpr, key, val)
SFail                    == Stmt("fail", NoExpr, FALSE, NoExpr, -1, NoExpr, "", NoExpr)
SPrint(val)              == Stmt("print", NoExpr, FALSE, NoExpr, -1, NoExpr, "", val)

\* ---- static typing ------------------------------------------------------------------
RECURSIVE TypeOf(_, _)
\* env: function from declared variable names to their types
TypeOf(e, env) ==
    CASE e.t = "lit" -> e.v.ty
      [] e.t = "var" -> IF e.name \in DOMAIN env THEN env[e.name] ELSE "error"
      [] e.t = "monlit" -> IF TypeOf(e.kids[1], env) = "asset" THEN "monetary" ELSE "error"
      [] e.t \in {"add", "sub"} ->
            LET l == TypeOf(e.kids[1], env) r == TypeOf(e.kids[2], env) IN
            IF l = "number" /\ r = "number" THEN "number"
            ELSE IF l = "monetary" /\ r = "monetary" THEN "monetary"
            ELSE "error"
      [] OTHER -> "error"

RECURSIVE EnvOf(_, _)
\* types of the variables declared by a prefix of the vars section
EnvOf(decls, n) == IF n = 0 THEN [x \in {} |-> ""] ELSE LET e == EnvOf(decls, n - 1) IN e @@ (decls[n].name :> decls[n].ty)

DeclsOK(decls) ==
    /\ \A i, j \in 1..Len(decls) : i # j => decls[i].name # decls[j].name
    /\ \A i \in 1..Len(decls) :
         LET d == decls[i] env == EnvOf(decls, i - 1) IN
         CASE d.origin = "plain" -> TRUE
           [] d.origin = "meta" -> TypeOf(d.acct, env) = "account"
           [] d.origin = "balance" -> d.ty = "monetary" /\ TypeOf(d.acct, env) = "account"

StmtOK(s, env) ==
    CASE s.k = "send" -> /\ (s.all \/ TypeOf(s.amt, env) = "monetary")
                         /\ TypeOf(s.src, env) = "account" /\ TypeOf(s.dst, env) = "account"
                         /\ ~(s.all /\ s.src.t = "lit" /\ s.src.v.s = "world")
                         /\ ~(s.src.t = "lit" /\ s.src.v.s = "world" /\ s.od # -1)
                         /\ ~(s.all /\ s.od = -2)
      [] s.k = "save" -> (s.all \/ TypeOf(s.amt, env) = "monetary") /\ TypeOf(s.src, env) = "account"
      [] s.k = "txmeta" -> TypeOf(s.val, env) # "error"
      [] s.k = "acctmeta" -> TypeOf(s.val, env) # "error" /\ TypeOf(s.src, env) = "account"
      [] s.k = "print" -> TypeOf(s.val, env) # "error"
      [] s.k = "fail" -> TRUE

StaticOK(p) == DeclsOK(p.decls) /\ \A i \in 1..Len(p.stmts) : StmtOK(p.stmts[i], EnvOf(p.decls, Len(p.decls)))

\* ---- evaluation ------------------------------------------------------------------------
RECURSIVE Eval(_, _)
\* -> a value, or Val("error", class, 0)
Eval(e, bind) ==
    CASE e.t = "lit" -> e.v
      [] e.t = "var" -> bind[e.name]
      [] e.t = "monlit" -> LET a == Eval(e.kids[1], bind) IN IF a.ty = "error" THEN a ELSE Val("monetary", a.s, e.v.n)
      [] OTHER ->
            LET l == Eval(e.kids[1], bind) r == Eval(e.kids[2], bind) IN
            IF l.ty = "error" THEN l ELSE IF r.ty = "error" THEN r
            ELSE IF l.ty = "monetary" /\ l.s # r.s THEN Val("error", "invalid-script", 0)
            ELSE Val(l.ty, l.s, IF e.t = "add" THEN l.n + r.n ELSE l.n - r.n)

Render(v) ==
    CASE v.ty = "monetary" -> v.s \o " " \o ToString(v.n)
      [] v.ty = "number" -> ToString(v.n)
      [] OTHER -> v.s

\* how a stored / supplied string is read as a value of the declared type (only what the palettes use)
ParseAs(ty, v) == IF v.ty = ty THEN v ELSE Val("error", "invalid-vars", 0)

EmptyBind == [x \in {} |-> NoVal]
RECURSIVE Bind(_, _, _, _)
\* resolve the declarations in order -> [err, bind]
Bind(decls, i, store, bind) ==
    IF i > Len(decls) THEN [err |-> "", bind |-> bind]
    ELSE LET d == decls[i] IN
         CASE d.origin = "plain" -> Bind(decls, i + 1, store, bind @@ (d.name :> d.sup))
           [] d.origin = "meta" ->
                LET a == Eval(d.acct, bind).s IN
                IF <<a, d.key>> \notin DOMAIN store.meta THEN [err |-> "missing-metadata", bind |-> bind]
                ELSE LET v == store.meta[<<a, d.key>>] IN
                     IF v.ty # d.ty THEN [err |-> "resolve-error", bind |-> bind]
                     ELSE Bind(decls, i + 1, store, bind @@ (d.name :> v))
           [] d.origin = "balance" ->
                LET a == Eval(d.acct, bind).s IN
                Bind(decls, i + 1, store, bind @@ (d.name :> VMon(store.bal[a])))

\* phase errors in the order the engine reports them
PlainErr(p) ==
    IF \E i \in 1..Len(p.decls) : p.decls[i].origin = "plain" /\ (p.decls[i].sup.ty # p.decls[i].ty) THEN "invalid-vars"
    ELSE IF p.extraVar THEN "invalid-vars" ELSE ""
BalanceErr(p, b) ==
    IF \E i \in 1..Len(p.decls) : p.decls[i].origin = "balance" /\ b.bind[p.decls[i].name].n < 0 THEN "negative-amount" ELSE ""

RECURSIVE RunStmts(_, _, _)
\* st = [bal, posts, txmeta, acctmeta]
RunStmts(stmts, bind, st) ==
    IF stmts = <<>> THEN [class |-> "ok", st |-> st]
    ELSE LET s == Head(stmts) IN
      CASE s.k = "fail" -> [class |-> "failed", st |-> st]
        [] s.k = "print" -> IF Eval(s.val, bind).ty = "error" THEN [class |-> Eval(s.val, bind).s, st |-> st] ELSE RunStmts(Tail(stmts), bind, st)
        [] s.k = "txmeta" ->
              LET v == Eval(s.val, bind) IN
              IF v.ty = "error" THEN [class |-> v.s, st |-> st]
              ELSE RunStmts(Tail(stmts), bind, [st EXCEPT !.txmeta = [k \in DOMAIN @ \cup {s.key} |-> IF k = s.key THEN Render(v) ELSE @[k]]])
        [] s.k = "acctmeta" ->
              LET v == Eval(s.val, bind) a == Eval(s.src, bind).s kk == <<a, s.key>> IN
              IF v.ty = "error" THEN [class |-> v.s, st |-> st]
              ELSE RunStmts(Tail(stmts), bind, [st EXCEPT !.acctmeta = [k \in DOMAIN @ \cup {kk} |-> IF k = kk THEN Render(v) ELSE @[k]]])
        \* save shields funds from the following sends: it can only lower what an account may give
        [] s.k = "save" ->
              LET a == Eval(s.src, bind).s
                  v == IF s.all THEN VMon(0) ELSE Eval(s.amt, bind) IN
              IF v.ty = "error" THEN [class |-> v.s, st |-> st]
              ELSE IF ~s.all /\ v.n < 0 THEN [class |-> "negative-amount", st |-> st]
              ELSE RunStmts(Tail(stmts), bind, [st EXCEPT !.bal[a] = IF s.all THEN (IF @ > 0 THEN 0 ELSE @) ELSE @ - v.n])
        [] s.k = "send" ->
              LET a == Eval(s.src, bind).s
                  d == Eval(s.dst, bind).s
                  v == IF s.all THEN VMon(-1) ELSE Eval(s.amt, bind)
                  src == SAcct(a, s.od) IN
              IF v.ty = "error" THEN [class |-> v.s, st |-> st]
              ELSE IF ~s.all /\ v.n < 0
                   THEN [class |-> IF Fallback(src) = "none" THEN "insufficient" ELSE "negative-amount", st |-> st]
              ELSE LET r == ExecSend(Send(v.n, src, DAcct(d)), st.bal) IN
                   IF r.class # "ok" THEN [class |-> r.class, st |-> st]
                   ELSE RunStmts(Tail(stmts), bind, [st EXCEPT !.bal = r.bal, !.posts = @ \o r.posts])

EmptyOut(class) == [class |-> class, posts |-> <<>>, txmeta |-> <<>>, acctmeta |-> <<>>]

\* p = [decls, stmts, extraVar (an undeclared variable is supplied), scriptMeta (set of keys passed with the request)]
\* store = [bal, meta]
Run(p, store) ==
    IF ~StaticOK(p) THEN EmptyOut("compile-error")
    ELSE IF PlainErr(p) # "" THEN EmptyOut(PlainErr(p))
    ELSE LET b == Bind(p.decls, 1, store, EmptyBind) IN
         IF b.err # "" THEN EmptyOut(b.err)
         ELSE IF BalanceErr(p, b) # "" THEN EmptyOut(BalanceErr(p, b))
         ELSE LET r == RunStmts(p.stmts, b.bind, [bal |-> store.bal, posts |-> <<>>, txmeta |-> <<>>, acctmeta |-> <<>>]) IN
              IF r.class # "ok" THEN EmptyOut(r.class)
              ELSE IF p.scriptMeta \cap DOMAIN r.st.txmeta # {} THEN EmptyOut("metadata-override")
              ELSE IF NormPosts(r.st.posts) = <<>> THEN EmptyOut("no-postings")
              ELSE [class |-> "ok", posts |-> NormPosts(r.st.posts), txmeta |-> r.st.txmeta, acctmeta |-> r.st.acctmeta]

\* C01 for whole programs: the accepted postings never overdraw (overdraft granted per send statement)
ProgSends(p, store) ==
    IF ~StaticOK(p) \/ PlainErr(p) # "" \/ Bind(p.decls, 1, store, EmptyBind).err # "" THEN <<>> ELSE
    LET b == Bind(p.decls, 1, store, EmptyBind) IN
    SelectSeq([i \in 1..Len(p.stmts) |->
                 IF p.stmts[i].k = "send" THEN Send(0, SAcct(Eval(p.stmts[i].src, b.bind).s, p.stmts[i].od), DAcct("x")) ELSE Send(0, SAcct("none", -1), DAcct("x"))],
              LAMBDA s : TRUE)
=============================================================================
