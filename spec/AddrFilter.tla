----------------------------- MODULE AddrFilter -----------------------------
(* The address filter of the read API (C04: "every ... filter").                *)
(* An account address is a sequence of segments; a filter is a sequence of      *)
(* segments some of which may be left empty. A filter without an empty segment  *)
(* names one address; otherwise it selects the addresses with the SAME NUMBER   *)
(* of segments whose segments equal the given ones                              *)
(* (ledgerstore.filterAccountAddress renders this as SQL text).                 *)
(* Emit writes one case per filter: the addresses of the ledger's accounts and  *)
(* of a second ledger in the same database, and the set the listing must return.*)
EXTENDS Integers, Sequences, FiniteSets, TLC, Json, SequencesExt

CONSTANTS Segs,      \* segment values
          MaxLen,    \* longest address / filter
          OutFile

Seqs(S, n) == UNION {[1..k -> S] : k \in 1..n}
Addresses == Seqs(Segs, MaxLen)
Filters == Seqs(Segs \cup {""}, MaxLen)

Open(f) == \E i \in 1..Len(f) : f[i] = ""
Matches(f, a) ==
    IF Open(f) THEN Len(f) = Len(a) /\ \A i \in 1..Len(f) : f[i] = "" \/ f[i] = a[i]
    ELSE f = a

RECURSIVE Join(_)
Join(s) == IF Len(s) = 1 THEN s[1] ELSE s[1] \o ":" \o Join(Tail(s))

\* the ledger holds every address but one (so that an exact filter can also find nothing);
\* the other ledger of the bucket holds them all
Held(f) == Addresses \ {<<CHOOSE s \in Segs : TRUE, CHOOSE s \in Segs : TRUE>>}
\* transactions of the ledger: for its k-th address x (in the order of HeldSeq), transaction 2k-2 moves x -> z and
\* transaction 2k-1 moves z -> x, z being a one-segment account outside Segs (so a filter of one open segment selects
\* every transaction). A transaction filter names the source, the destination, or either ("account").
Z == <<"z">>
HeldSeq(f) == SetToSeq(Held(f))
TxsOf(f) == LET h == HeldSeq(f) IN
            [i \in 1..(2 * Len(h)) |-> IF i % 2 = 1 THEN [id |-> i - 1, src |-> h[(i + 1) \div 2], dst |-> Z]
                                                    ELSE [id |-> i - 1, src |-> Z, dst |-> h[i \div 2]]]
Sel(f, pred(_)) == LET t == TxsOf(f) IN SetToSeq({t[i].id : i \in {j \in 1..Len(t) : pred(t[j])}})
Case(f) == [filter |-> Join(f),
            own |-> SetToSeq({Join(a) : a \in Held(f)}),
            foreign |-> SetToSeq({Join(a) : a \in Addresses}),
            expect |-> SetToSeq({Join(a) : a \in {x \in Held(f) : Matches(f, x)}}),
            txs |-> [i \in 1..Len(TxsOf(f)) |-> [id |-> TxsOf(f)[i].id, src |-> Join(TxsOf(f)[i].src), dst |-> Join(TxsOf(f)[i].dst)]],
            bySource |-> Sel(f, LAMBDA t : Matches(f, t.src)),
            byDestination |-> Sel(f, LAMBDA t : Matches(f, t.dst)),
            byAccount |-> Sel(f, LAMBDA t : Matches(f, t.src) \/ Matches(f, t.dst))]

\* sanity of the definition itself (checked by TLC before anything is emitted)
ExactIsSingleton == \A f \in Filters : ~Open(f) => \A a \in Addresses : Matches(f, a) <=> a = f
OpenKeepsLength  == \A f \in Filters : \A a \in Addresses : Matches(f, a) => Len(a) = Len(f)
AllOpenIsLength  == \A n \in 1..MaxLen : \A a \in Addresses : Matches([i \in 1..n |-> ""], a) <=> Len(a) = n
\* negative design for the vacuity guard: the length test dropped when the last segment is given
MatchesNoLength(f, a) ==
    IF Open(f) /\ f[Len(f)] # "" THEN Len(a) >= Len(f) /\ \A i \in 1..Len(f) : f[i] = "" \/ f[i] = a[i]
    ELSE Matches(f, a)
LengthMatters == \E f \in Filters : \E a \in Addresses : MatchesNoLength(f, a) /\ ~Matches(f, a)

VARIABLE done
Init == done = FALSE
Next == ~done /\ done' = TRUE
Spec == Init /\ [][Next]_done
Sane == ExactIsSingleton /\ OpenKeepsLength /\ AllOpenIsLength /\ LengthMatters
Emit == TLCGet("stats").generated >= 0 /\ ndJsonSerialize(OutFile, SetToSeq({Case(f) : f \in Filters}))
=============================================================================
