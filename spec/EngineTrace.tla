----------------------------- MODULE EngineTrace -----------------------------
(* Conformance of the replayed executions of the real Commander with           *)
(* Engine.tla: every "step" line must be the corresponding action of the        *)
(* specification for the design switches as coded, reach the same yield point   *)
(* and leave the same projected state. Executions generated under another       *)
(* design (attack schedules) are skipped here; they are judged by EngineObs.    *)
EXTENDS EngineMC, Json

CONSTANT TraceFile
Trace == ndJsonDeserialize(TraceFile)

VARIABLES l, on
tvars == <<vars, l, on>>

ThisDesign == [UnlockAt |-> UnlockAt, RefRelease |-> RefRelease, SeqAtomic |-> SeqAtomic,
               DryRunAllocates |-> DryRunAllocates, DryRunPublishes |-> DryRunPublishes,
               RevertEventSwapped |-> RevertEventSwapped, ReplayFromRequest |-> ReplayFromRequest, SeedTx |-> SeedTx, LookupErrorIgnored |-> LookupErrorIgnored, MetaSourceLocked |-> MetaSourceLocked,
           AckWaitsPersist |-> AckWaitsPersist, IkSpan |-> IkSpan, RevertGuard |-> RevertGuard,
           MetaLogsCarryIk |-> MetaLogsCarryIk, CancelAbortsWait |-> CancelAbortsWait]

E == Trace[l + 1]
More == l < Len(Trace)

InitWith(r) ==
    /\ req = r
    /\ pc = [p \in Procs |-> "start"]
    /\ loc = [p \in Procs |-> Blank]
    /\ store = InitStore
    /\ lastLog = LastLogIdOf(InitStore) /\ lastTx = LastTxIdOf(InitStore)
    /\ refs = {} /\ rl = [a \in LockAccts |-> 0] /\ wl = {} /\ lq = <<>> /\ seqOwner = "none"
    /\ pending = <<>> /\ inflight = <<>> /\ doneSet = {}
    /\ resp = [p \in Procs |-> NoResp] /\ events = <<>> /\ gen = 0 /\ crashes = 0 /\ rfail = 0 /\ cancelled = {}

TraceInit == InitWith([p \in Procs |-> Palette[1]]) /\ l = 0 /\ on = FALSE

ToSetOf(s) == {s[i] : i \in 1..Len(s)}

Bound ==
    /\ lastLog' = E.ll /\ lastTx' = E.lt /\ Len(store') = E.sl
    /\ Cardinality(refs') = E.nr
    /\ wl' = ToSetOf(E.wl)
    /\ Len(lq') = E.nq
    /\ [i \in 1..Len(inflight') |-> inflight'[i].id] = E.inf
    /\ Len(pending') = E.np

TraceReset ==
    /\ More /\ E.ev = "reset" /\ l' = l + 1
    /\ on' = (E.design = ThisDesign /\ DOMAIN E.req = Procs)
    /\ IF E.design = ThisDesign /\ DOMAIN E.req = Procs
       THEN /\ req' = E.req
            /\ pc' = [p \in Procs |-> "start"] /\ loc' = [p \in Procs |-> Blank]
            /\ store' = InitStore /\ lastLog' = LastLogIdOf(InitStore) /\ lastTx' = LastTxIdOf(InitStore)
            /\ refs' = {} /\ rl' = [a \in LockAccts |-> 0] /\ wl' = {} /\ lq' = <<>> /\ seqOwner' = "none"
            /\ pending' = <<>> /\ inflight' = <<>> /\ doneSet' = {}
            /\ resp' = [p \in Procs |-> NoResp] /\ events' = <<>> /\ gen' = 0 /\ crashes' = 0 /\ rfail' = 0 /\ cancelled' = {}
       ELSE UNCHANGED vars

TraceStep ==
    /\ More /\ on /\ E.ev = "step" /\ E.a = "step" /\ l' = l + 1 /\ on' = on
    /\ Step(E.p)
    /\ pc'[E.p] = E.at
    /\ E.at = "finished" => (resp'[E.p].st = E.rs /\ resp'[E.p].code = E.code /\ resp'[E.p].txid = E.txid)
    /\ Bound

TraceReadFail ==
    /\ More /\ on /\ E.ev = "step" /\ E.a = "readfail" /\ l' = l + 1 /\ on' = on
    /\ ReadFail(E.p)
    /\ pc'[E.p] = E.at
    /\ E.at = "finished" => (resp'[E.p].st = E.rs /\ resp'[E.p].code = E.code /\ resp'[E.p].txid = E.txid)
    /\ Bound

TracePersist ==
    /\ More /\ on /\ E.ev = "step" /\ E.a = "persist" /\ l' = l + 1 /\ on' = on
    /\ Persist /\ Bound

TraceCancel ==
    /\ More /\ on /\ E.ev = "step" /\ E.a = "cancel" /\ l' = l + 1 /\ on' = on
    /\ Cancel(E.p) /\ Bound

TraceCrash ==
    /\ More /\ on /\ E.ev = "step" /\ E.a = "crash" /\ l' = l + 1 /\ on' = on
    /\ Crash(E.applied) /\ Bound

\* lines of the observable history, and everything of an execution that is not checked here
TraceSkip ==
    /\ More /\ E.ev # "reset" /\ (~on \/ E.ev # "step") /\ l' = l + 1 /\ on' = on
    /\ UNCHANGED vars

Finished == ~More /\ UNCHANGED tvars

TraceNext == TraceReset \/ TraceStep \/ TraceReadFail \/ TracePersist \/ TraceCancel \/ TraceCrash \/ TraceSkip \/ Finished
TraceSpec == TraceInit /\ [][TraceNext]_tvars
=============================================================================
