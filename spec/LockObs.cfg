SPECIFICATION OSpec
CONSTANT TraceFile = "TRACEFILE"
INVARIANTS ObsExclusion ObsNoLeak ObsProgress ObsNoHang
CHECK_DEADLOCK FALSE
