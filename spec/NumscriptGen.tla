---------------------------- MODULE NumscriptGen ----------------------------
(* Bounded universe of Numscript programs for C01 / C03 / C08 / C12 and the   *)
(* model-level check of the laws on the reference semantics. One TLC state per *)
(* case (Init enumerates them); Emit writes the cases with their expected      *)
(* outcome as NDJSON for the replay harness (harness/cmd/nsconf).              *)
EXTENDS Numscript, Json, Randomization, TLCExt, SequencesExt

CONSTANTS Family,    \* which family of cases
          OutFile,   \* NDJSON output
          SampleN,   \* size of the random sample for the deep families
          Half       \* 0: the whole family; 1 / 2 / 3: a third of it, by send amount (so that the parts run in parallel)

VARIABLE c           \* the case: [sends, bal]

\* ---- terms ------------------------------------------------------------------
S0 == {SAcct(a, od) : a \in {"a", "b"}, od \in {-1, 2, -2}} \cup {SAcct("world", -1), SAcct("world", -2)}
S1 == S0 \cup {SMax(cp, s) : cp \in {1, 3}, s \in S0} \cup {SSeq(<<s, t>>) : s, t \in S0}
S2deep == {SMax(cp, s) : cp \in {1, 3}, s \in S1} \cup {SSeq(<<s, t>>) : s \in S1, t \in S1} \cup {SSeq(<<s, t, u>>) : s, t, u \in S0}
PortSets == {<<Por(1, 2), Por(1, 2)>>, <<Por(1, 3), Por(2, 3)>>, <<Por(1, 3), Remaining>>, <<Remaining, Por(3, 4)>>,
             <<Por(1, 2), Por(1, 4)>>, <<Por(2, 3), Por(2, 3)>>, <<Por(1, 2), Por(1, 2), Remaining>>}
\* portions given by variables (negative denominator): with `remaining`; alone (refused whatever their values); next to a
\* literal that already makes 100% or that does not
VarPortSets == {<<Por(0, -3), Remaining>>, <<Por(0, -2), Por(2, 3), Remaining>>, <<Por(1, -3), Remaining>>, <<Por(1, -2), Por(1, -2)>>, <<Por(1, -3), Por(1, -3)>>, <<Por(1, 2), Por(1, -2)>>,
                <<Remaining, Por(3, -4)>>, <<Por(1, -4), Por(1, 2), Remaining>>, <<Por(1, -4), Por(1, -4), Por(1, -2)>>}
Port3Sets == {<<Por(0, 3), Por(1, 3), Por(2, 3)>>, <<Por(1, 2), Por(0, 1), Por(1, 2)>>, <<Por(0, 1), Remaining, Por(1, 2)>>,
              <<Por(1, 3), Por(1, 3), Remaining>>, <<Por(1, 4), Por(1, 4), Por(1, 2)>>, <<Por(1, 7), Por(2, 7), Remaining>>,
              <<Remaining, Por(1, 3), Remaining>>}
SA == {SAllot(ps, <<s, t>>) : ps \in {p \in PortSets : Len(p) = 2}, s, t \in S0}
      \cup {SAllot(ps, <<s, t, u>>) : ps \in Port3Sets, s, t, u \in {SAcct("a", -1), SAcct("b", -1), SAcct("world", -1), SAcct("b", 2)}}

D0 == {DAcct("x"), DAcct("y"), DAcct("a")}
KD0 == D0 \cup {DKept}
D1 == D0
      \cup {DSeq(<<c1>>, <<e1, e2>>) : c1 \in {1, 3}, e1, e2 \in KD0}
      \cup {DSeq(<<c1, c2>>, <<e1, e2, e3>>) : c1, c2 \in {1, 3}, e1, e2, e3 \in KD0}
      \cup {DAllot(ps, <<e1, e2>>) : ps \in {p \in PortSets : Len(p) = 2}, e1, e2 \in KD0}
      \cup {DAllot(ps, <<e1, e2, e3>>) : ps \in Port3Sets \cup {p \in PortSets : Len(p) = 3}, e1, e2, e3 \in KD0}
KD1small == {DKept, DAcct("x"), DSeq(<<1>>, <<DAcct("y"), DKept>>), DSeq(<<3>>, <<DKept, DAcct("y")>>),
             DAllot(<<Por(1, 3), Remaining>>, <<DAcct("y"), DKept>>), DAllot(<<Por(1, 2), Por(1, 2)>>, <<DAcct("a"), DAcct("y")>>)}
D2deep == {DSeq(<<c1>>, <<e1, e2>>) : c1 \in {1, 3}, e1, e2 \in KD1small}
          \cup {DSeq(<<c1, c2>>, <<e1, e2, e3>>) : c1, c2 \in {1, 3}, e1, e2, e3 \in KD1small}
          \cup {DAllot(ps, <<e1, e2>>) : ps \in {<<Por(1, 3), Remaining>>, <<Por(1, 2), Por(1, 2)>>}, e1, e2 \in KD1small}

Amts == CASE Half = 1 -> {-1, 0} [] Half = 2 -> {1, 3} [] Half = 3 -> {4, 7} [] OTHER -> {-1, 0, 1, 3, 4, 7}
Bal(a, b) == [x \in {"a", "b", "x", "y", "world"} |-> IF x = "a" THEN a ELSE IF x = "b" THEN b ELSE 0]
BalsWide == {Bal(a, b) : a \in {-1, 0, 2, 5}, b \in {0, 3}}
BalsPos == {Bal(a, b) : a \in {2, 5}, b \in {0, 3}}

S3 == {SSeq(<<SMax(cp, SAcct(x, -1)), SAcct(y, o), SAcct(x, o2)>>) : cp \in {1, 3}, x \in {"a", "b"}, y \in {"a", "b", "world"}, o \in {-1, 2}, o2 \in {-1, 2}}
      \cup {SSeq(<<SAcct(x, -1), SMax(cp, SAcct(y, -1)), SMax(cp, SAcct(x, 2))>>) : cp \in {1, 3}, x \in {"a", "b"}, y \in {"a", "b"}}
PvarSrc == {SAcct("world", -1), SAcct("a", -1)}
           \cup {SAllot(ps, <<SAcct("a", -1), SAcct("b", 2)>>) : ps \in {p \in VarPortSets : Len(p) = 2}}
           \cup {SAllot(ps, <<SAcct("a", -1), SAcct("b", -1), SAcct("world", -1)>>) : ps \in {p \in VarPortSets : Len(p) = 3}}
PvarDst == {DAcct("x")} \cup {DAllot(ps, <<e1, e2>>) : ps \in {p \in VarPortSets : Len(p) = 2}, e1, e2 \in KD0}
           \cup {DAllot(ps, <<DAcct("x"), DKept, DAcct("y")>>) : ps \in {p \in VarPortSets : Len(p) = 3}}
PctPorts == {<<Por(41, 2000), Remaining>>, <<Por(101, 10000), Por(1, 16), Remaining>>, <<Por(21, 2000), Por(1979, 2000)>>,
             <<Por(1, 40), Por(3, 80), Remaining>>}
PctSrc == {SAcct("world", -1), SAcct("a", -1)}
          \cup {SAllot(ps, <<SAcct("a", -1), SAcct("b", -1)>>) : ps \in {p \in PctPorts : Len(p) = 2}}
          \cup {SAllot(ps, <<SAcct("a", -1), SAcct("b", -1), SAcct("world", -1)>>) : ps \in {p \in PctPorts : Len(p) = 3}}
PctDst == {DAcct("x")} \cup {DAllot(ps, <<DAcct("x"), DAcct("y")>>) : ps \in {p \in PctPorts : Len(p) = 2}}
          \cup {DAllot(ps, <<DAcct("x"), DKept, DAcct("y")>>) : ps \in {p \in PctPorts : Len(p) = 3}}
BalPct(a, b) == [x \in {"a", "b", "x", "y", "world"} |-> IF x = "a" THEN a ELSE IF x = "b" THEN b ELSE 0]

SrcFew == {SAcct("a", -1), SSeq(<<SAcct("a", -1), SAcct("b", -1)>>), SAcct("world", -1), SMax(3, SAcct("a", 2)),
           SAllot(<<Por(1, 3), Remaining>>, <<SAcct("a", -1), SAcct("b", 2)>>), SSeq(<<SAcct("b", -1), SAcct("a", -2)>>)}

\* two-statement programs: receive-then-spend, spend-then-receive, spending twice
SendPal == {Send(m, s, d) : m \in {1, 3, -1}, s \in {SAcct("a", -1), SAcct("b", -1), SAcct("world", -1), SAcct("a", 2),
                                                       SSeq(<<SAcct("a", -1), SAcct("b", -1)>>)},
                            d \in {DAcct("a"), DAcct("b"), DAcct("x")}}

Cases ==
    CASE Family = "src1"    -> {[sends |-> <<Send(m, s, DAcct("x"))>>, bal |-> b] : m \in Amts, s \in S1 \cup SA, b \in BalsWide}
      [] Family = "src2"    -> {[sends |-> <<Send(m, s, DAcct("x"))>>, bal |-> b] : m \in Amts, s \in RandomSubset(SampleN, S2deep), b \in BalsWide}
      [] Family = "dst1"    -> {[sends |-> <<Send(m, s, d)>>, bal |-> b] : m \in Amts, s \in SrcFew, d \in D1, b \in BalsPos}
      [] Family = "dst2"    -> {[sends |-> <<Send(m, s, d)>>, bal |-> b] : m \in Amts, s \in SrcFew, d \in RandomSubset(SampleN, D2deep), b \in BalsPos}
      [] Family = "prog2"   -> {[sends |-> <<s1, s2>>, bal |-> b] : s1, s2 \in SendPal, b \in BalsWide}
      \* ordered sources of three entries where one account stands at two places that are not adjacent (under a cap first, then
      \* by itself), alone and followed by a second send that uses the account again
      [] Family = "src3"    -> {[sends |-> <<Send(m, s, DAcct("x"))>>, bal |-> b] : m \in {-1, 1, 3, 4, 7}, s \in S3, b \in BalsWide}
                               \cup {[sends |-> <<Send(m, s, DAcct("x")), Send(m2, SAcct(a, -1), DAcct("y"))>>, bal |-> b]
                                        : m \in {1, 3, 4}, m2 \in {1, 3, -1}, s \in S3, a \in {"a", "b"}, b \in BalsPos}
      [] Family = "pvar"    -> {[sends |-> <<Send(m, s, d)>>, bal |-> b] : m \in {-1, 0, 1, 3, 4, 7}, s \in PvarSrc, d \in PvarDst, b \in BalsPos}
      \* portions whose percentage has decimals with a leading zero (2.05%, 1.01%, 6.25%), at amounts where they matter
      [] Family = "pct"     -> {[sends |-> <<Send(m, s, d)>>, bal |-> BalPct(a, b)] : m \in {7, 100, 4001}, s \in PctSrc, d \in PctDst,
                                                                                       a \in {0, 50, 5000}, b \in {0, 4000}}
      \* two sends over disjoint accounts: the harness puts each in its own asset, with names whose account+asset strings coincide
      [] Family = "collide" -> {[sends |-> <<Send(m1, SAcct("a", o1), DAcct("x")), Send(m2, SAcct("b", o2), DAcct("y"))>>, bal |-> Bal(a, b)]
                                   : m1, m2 \in {0, 2, 3, -1}, o1, o2 \in {-1, 2}, a \in {0, 2, 5}, b \in {0, 3}}

Init == c \in Cases
Next == UNCHANGED c
Spec == Init /\ [][Next]_c

Out(cs) == Outcome(cs.sends, cs.bal)

\* ---- the laws hold on the reference semantics (model level) -------------------
LawC01 == LET o == Out(c) IN
    /\ o.class = "ok" => NeverOverdrawn(o.posts, c.bal, c.sends)
    /\ o.class # "ok" => o.posts = <<>>
LawNoNegative == NoNegativePosting(Out(c).posts)
\* a single send never moves more than its stated amount, and exactly it when nothing is kept
RECURSIVE HasKept(_)
HasKept(d) == d.t = "kept" \/ \E i \in 1..Len(d.ds) : HasKept(d.ds[i])
Moved(ps) == SumSeq([i \in 1..Len(ps) |-> ps[i].amt])
LawC03Amount ==
    (Len(c.sends) = 1 /\ Out(c).class \in {"ok", "no-postings"} /\ c.sends[1].amt >= 0) =>
        /\ Moved(Out(c).posts) <= c.sends[1].amt
        /\ ~HasKept(c.sends[1].dst) => Moved(Out(c).posts) = c.sends[1].amt

\* ---- emission ------------------------------------------------------------------
\* K: a common multiple of every portion denominator of the standard families (2, 3, 4, 7); the case multiplied by K
\* splits into portions without remainders, which lets the harness run it at K * 2^55 and compare (see nsconf)
K == 84
\* amounts 1, 3, 4: at K * 2^55 they still fit a machine word
\* only the families whose portions are not nested: below a portion of a portion K would have to be a multiple of products
UsesK(cs) == Family \in {"src1", "dst1", "pvar"} /\ HasPorts(cs.sends) /\ cs.sends[1].amt \in {1, 3, 4}
Emit == TLCGet("stats").generated >= 0 /\
        ndJsonSerialize(OutFile, SetToSeq({[sends |-> cs.sends, bal |-> cs.bal, exp |-> Out(cs),
                                            k |-> IF UsesK(cs) THEN K ELSE 0,
                                            expK |-> IF UsesK(cs) THEN Outcome(ScaleSends(cs.sends, K), ScaleBal(cs.bal, K)) ELSE Out(cs),
                                            binding |-> IF Family = "collide" THEN "collide" ELSE ""] : cs \in Cases}))
=============================================================================
