---------------------------- MODULE EngineProps ----------------------------
(* Property predicates of the write path (C02 C05 C06 C07 C10 C11 C14 C16), *)
(* written over plain observable values so that the same definitions are    *)
(* evaluated on the variables of Engine.tla (model checking) and on the      *)
(* values recorded from the real Commander (EngineObs.tla, the verdict).     *)
(*                                                                           *)
(* log    = sequence of persisted log records                                *)
(*   [id, kind \in {"tx","rev","set","del"}, by, txid, target, postings,     *)
(*    ref, ik, od]    ("by" = the request that produced it)                  *)
(* resp   = function request -> [st \in {"none","ok","err","lost"}, ...]     *)
(* events = sequence of published events [type, by, txid, target]            *)
EXTENDS Integers, Sequences, FiniteSets

Range(s) == {s[i] : i \in 1..Len(s)}
IsMoney(l) == l.kind \in {"tx", "rev"}

\* ---- balances as a fold of the log --------------------------------------
RECURSIVE ApplyPostings(_, _)
ApplyPostings(bal, ps) ==
    IF ps = <<>> THEN bal
    ELSE LET p == Head(ps)
             b1 == [bal EXCEPT ![p.src] = @ - p.amt]
             b2 == [b1 EXCEPT ![p.dst] = @ + p.amt]
         IN ApplyPostings(b2, Tail(ps))

RECURSIVE BalancesOf(_, _)
BalancesOf(log, zero) ==
    IF log = <<>> THEN zero
    ELSE LET rest == BalancesOf(SubSeq(log, 1, Len(log) - 1), zero)
             l == log[Len(log)]
         IN IF IsMoney(l) THEN ApplyPostings(rest, l.postings) ELSE rest

\* ---- C02: the committed history is a serial execution ---------------------
\* at its position in the log every accepted transaction's sources held enough
\* (an entry with od = TRUE declared an unbounded overdraft / forced revert)
RECURSIVE PostingsCovered(_, _)
PostingsCovered(bal, ps) ==
    IF ps = <<>> THEN TRUE
    ELSE LET p == Head(ps)
             b1 == [bal EXCEPT ![p.src] = @ - p.amt]
             b2 == [b1 EXCEPT ![p.dst] = @ + p.amt]
         IN (p.src = "world" \/ b1[p.src] >= 0) /\ PostingsCovered(b2, Tail(ps))

SerialFunds(log, zero) ==
    \A i \in 1..Len(log) :
        (IsMoney(log[i]) /\ ~log[i].od) =>
            PostingsCovered(BalancesOf(SubSeq(log, 1, i - 1), zero), log[i].postings)

\* ---- C05: gap-free chain, transaction ids in log order --------------------
IdsGapFree(log) == \A i \in 1..Len(log) : log[i].id = i - 1

MoneyLogs(log) == SelectSeq(log, IsMoney)
TxIdsSequential(log) ==
    LET m == MoneyLogs(log) IN \A i \in 1..Len(m) : m[i].txid = i - 1

\* ---- C06: acknowledged <=> persisted, one entry per successful write -----
LogsBy(log, p) == {i \in 1..Len(log) : log[i].by = p}

\* a request that answered ok through an idempotency-key replay is answered with
\* the entry of the request that had the effect
AckPersisted(log, resp) ==
    \A p \in DOMAIN resp :
        resp[p].st = "ok" /\ ~resp[p].dry =>
            \E i \in 1..Len(log) : log[i].txid = resp[p].txid
                                   /\ (log[i].by = p \/ (log[i].ik # "" /\ log[i].ik = resp[p].ik))

RejectedLeavesNothing(log, resp) ==
    \A p \in DOMAIN resp : resp[p].st = "err" => LogsBy(log, p) = {}

AtMostOneEntryPerRequest(log, procs) ==
    \A p \in procs : Cardinality(LogsBy(log, p)) <= 1

EveryEntryHasProducer(log, procs) ==
    \A i \in 1..Len(log) : log[i].by \in procs \cup {"init"}

\* ---- C07: an idempotency key takes effect at most once --------------------
IkOnce(log) ==
    \A i, j \in 1..Len(log) : (i # j /\ log[i].ik # "") => log[i].ik # log[j].ik

\* keys as the requests carried them: two entries produced by requests sharing a key are two effects
IkOncePerRequestKey(log, reqIk) ==
    \A i, j \in 1..Len(log) :
        (i # j /\ log[i].by \in DOMAIN reqIk /\ log[j].by \in DOMAIN reqIk /\ reqIk[log[i].by] # "")
            => reqIk[log[i].by] # reqIk[log[j].by]

IkSameOutcome(resp) ==
    \A p, q \in DOMAIN resp :
        (resp[p].st = "ok" /\ resp[q].st = "ok" /\ resp[p].ik # "" /\ resp[p].ik = resp[q].ik
         /\ ~resp[p].dry /\ ~resp[q].dry)
            => resp[p].txid = resp[q].txid

\* ---- C10: revert is an exact, once-only inverse -----------------------------
RECURSIVE ReversePostings(_)
ReversePostings(ps) ==
    IF ps = <<>> THEN <<>>
    ELSE Append(ReversePostings(Tail(ps)), [src |-> Head(ps).dst, dst |-> Head(ps).src, amt |-> Head(ps).amt])

RevertOnce(log) ==
    \A i, j \in 1..Len(log) :
        (i # j /\ log[i].kind = "rev" /\ log[j].kind = "rev") => log[i].target # log[j].target

RevertIsInverse(log) ==
    \A i \in 1..Len(log) : log[i].kind = "rev" =>
        \E j \in 1..(i - 1) : /\ IsMoney(log[j]) /\ log[j].txid = log[i].target
                              /\ log[i].postings = ReversePostings(log[j].postings)

\* ---- C11: a reference is committed at most once -----------------------------
RefOnce(log) ==
    \A i, j \in 1..Len(log) :
        (i # j /\ IsMoney(log[i]) /\ IsMoney(log[j]) /\ log[i].ref # "") => log[i].ref # log[j].ref

\* ---- C14: a dry run changes nothing -----------------------------------------
DryLeavesNoEntry(log, dryProcs) == \A p \in dryProcs : LogsBy(log, p) = {}
DryPublishesNothing(events, dryProcs) == \A i \in 1..Len(events) : events[i].by \notin dryProcs

\* ---- C16: events describe committed changes ---------------------------------
EventFaithful(e, log) ==
    \E i \in 1..Len(log) :
        LET l == log[i] IN
        /\ l.by = e.by \/ (l.ik # "" /\ l.ik = e.ik)
        /\ CASE e.type = "committed" -> l.kind = "tx" /\ l.txid = e.txid /\ l.postings = e.postings /\ l.mval = e.mval
             [] e.type = "reverted"  -> l.kind = "rev" /\ l.txid = e.txid /\ l.target = e.target
             [] e.type = "saved"     -> l.kind = "set" /\ l.target = e.target /\ l.tacct = e.tacct
             [] e.type = "deleted"   -> l.kind = "del" /\ l.target = e.target /\ l.tacct = e.tacct
             [] OTHER -> FALSE

EventsFaithful(events, log) == \A i \in 1..Len(events) : EventFaithful(events[i], log)

\* completeness at quiescence: every entry whose request answered ok was published
AllPublished(events, log, resp) ==
    \A p \in DOMAIN resp : (resp[p].st = "ok" /\ ~resp[p].dry) =>
        \E i \in 1..Len(events) : events[i].by = p
=============================================================================
