---------------------------- MODULE NumscriptObs ----------------------------
(* Verdict on the implementation for C01 C03 C08 C12: the laws of Numscript.tla *)
(* and equality with the reference semantics, evaluated by TLC on what the real *)
(* compiler + VM produced for every case (results written by harness/cmd/nsconf) *)
EXTENDS Numscript, Json, SequencesExt

CONSTANT ResultFile, MaxReport
Results == ndJsonDeserialize(ResultFile)

VARIABLES l, viol, cnt
ovars == <<l, viol, cnt>>

Names == {"C01_NeverOverdrawn", "C01_RejectedWhole", "C03_NoNegative", "C03_PerDestination", "C03_PerSource",
          "C03_Amount", "C03_SameDecision", "C08_SameAsSource", "C08_SameMetadata", "C08_RefusedNotRun", "C08_BigValues", "C12_NoPanicNoHang", "C12_DefinedClass", "C12_Repeatable"}

Defined == {"ok", "no-postings", "compile-error", "insufficient", "failed", "invalid-script", "negative-amount",
            "missing-metadata", "metadata-override", "invalid-vars", "resolve-error"}

Accts(ps) == {ps[i].src : i \in 1..Len(ps)} \cup {ps[i].dst : i \in 1..Len(ps)}
Has(r, f) == f \in DOMAIN r
ToDst(ps, a) == SumSeq([i \in 1..Len(ps) |-> IF ps[i].dst = a THEN ps[i].amt ELSE 0])
FromSrc(ps, a) == SumSeq([i \in 1..Len(ps) |-> IF ps[i].src = a THEN ps[i].amt ELSE 0])
Moved(ps) == SumSeq([i \in 1..Len(ps) |-> ps[i].amt])
Ran(class) == class \in {"ok", "no-postings"}
Crashed(class) == class = "hang" \/ (Len(class) >= 5 /\ SubSeq(class, 1, 5) = "panic")

\* the laws and the comparison with what the source defines, for one observed outcome
FailingAgainst(exp, bal, sends, real) ==
    LET T(name, ok) == IF ok THEN {} ELSE {name}
        both == Ran(real.class) /\ Ran(exp.class)
        all == Accts(real.posts) \cup Accts(exp.posts)
    IN  T("C01_NeverOverdrawn", real.class = "ok" => NeverOverdrawn(real.posts, bal, sends))
        \cup T("C01_RejectedWhole", /\ real.class # "ok" => real.posts = <<>>
                                    /\ (exp.class = "insufficient" /\ ~Crashed(real.class)) => real.class = "insufficient")
        \cup T("C03_NoNegative", NoNegativePosting(real.posts))
        \cup T("C03_PerDestination", both => \A a \in all : ToDst(real.posts, a) = ToDst(exp.posts, a))
        \cup T("C03_PerSource", both => \A a \in all : FromSrc(real.posts, a) = FromSrc(exp.posts, a))
        \cup T("C03_Amount", (Ran(exp.class) /\ ~Crashed(real.class)) => (Ran(real.class) /\ Moved(real.posts) = Moved(exp.posts)))
        \* a send the source refuses (negative amount, uncovered, ill-formed) is refused; one it accepts is accepted
        \cup T("C03_SameDecision", ~Crashed(real.class) => (Ran(real.class) = Ran(exp.class)))
        \cup T("C08_SameAsSource", ~Crashed(real.class) => (real.class = exp.class /\ real.posts = exp.posts))
        \cup T("C08_SameMetadata", ("txmeta" \in DOMAIN real /\ ~Crashed(real.class) /\ real.class = exp.class)
                                        => (real.txmeta = exp.txmeta /\ real.acctmeta = exp.acctmeta))
        \cup T("C08_RefusedNotRun", exp.class = "compile-error" => real.class = "compile-error")
        \cup T("C12_NoPanicNoHang", ~Crashed(real.class))
        \cup T("C12_DefinedClass", Crashed(real.class) \/ real.class \in Defined)


FailingOutcome(r, real) == FailingAgainst(r.exp, r.bal, r.sends, real)

\* the executions at K*u, divided by u, against what the source defines for the case multiplied by K
FailingUnit(r, real) == FailingAgainst(r.expK, ScaleBal(r.bal, r.k), ScaleSends(r.sends, r.k), real)
\* the unscaled execution, plus every execution with all amounts multiplied by a factor around
\* 2^61..2^70 whose outcome is not the unscaled one times the factor
Failing(r) ==
    FailingOutcome(r, r.real)
    \cup UNION {FailingOutcome(r, r.scaledBad[i]) : i \in 1..Len(r.scaledBad)}
    \cup (IF r.scaledOk THEN {} ELSE {"C08_BigValues"})
    \cup (IF r.scaledInexact THEN {"C03_Amount"} ELSE {})
    \cup (IF r.againSame THEN {} ELSE {"C12_Repeatable"})
    \cup (IF Has(r, "spellingBad") THEN UNION {FailingOutcome(r, r.spellingBad[i]) : i \in 1..Len(r.spellingBad)} ELSE {})
    \cup (IF Has(r, "unitBad") THEN UNION {FailingUnit(r, r.unitBad[i]) : i \in 1..Len(r.unitBad)} ELSE {})
    \cup (IF Has(r, "unitInexact") /\ r.unitInexact THEN {"C03_Amount"} ELSE {})

OInit == l = 0 /\ viol = {} /\ cnt = [n \in Names |-> 0] /\ TLCSet(1, {}) /\ TLCSet(2, [n \in Names |-> 0])

ONext ==
    /\ l < Len(Results)
    /\ l' = l + 1
    /\ LET f == Failing(Results[l + 1]) IN
       /\ cnt' = [n \in Names |-> IF n \in f THEN cnt[n] + 1 ELSE cnt[n]]
       /\ viol' = viol \cup {<<n, l + 1>> : n \in {m \in f : cnt[m] < MaxReport}}
    /\ TLCSet(1, viol') /\ TLCSet(2, cnt')

OSpec == OInit /\ [][ONext]_ovars
Post == PrintT(<<"OBS-VERDICT", TLCGet(1)>>) /\ PrintT(<<"OBS-COUNTS", TLCGet(2)>>)
=============================================================================
