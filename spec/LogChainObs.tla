---------------------------- MODULE LogChainObs ----------------------------
(* Verdict for C13: every history of LogChain.tla instantiated with real          *)
(* ledger.Log values, chained with Log.ChainLog, stored in both real forms         *)
(* (json.Marshal(ChainedLog) -> UnmarshalJSON ; the ledgerstore.Logs row ->         *)
(* ToCore) and read back.                                                           *)
EXTENDS Naturals, Sequences, FiniteSets, TLC, Json
CONSTANT ResultFile, MaxReport
Results == ndJsonDeserialize(ResultFile)
VARIABLES l, viol, cnt
ovars == <<l, viol, cnt>>
Names == {"C13_ReadBackWithoutError", "C13_ContentUnchanged", "C13_HashRecomputes"}
Failing(r) ==
    UNION {
      LET o == r.obs[i] T(name, ok) == IF ok THEN {} ELSE {name} IN
        T("C13_ReadBackWithoutError", o.jsonReadBack /\ o.rowReadBack)
        \cup T("C13_ContentUnchanged", (o.jsonReadBack => o.jsonSameContent) /\ (o.rowReadBack => o.rowSameContent))
        \cup T("C13_HashRecomputes", (o.jsonReadBack => o.jsonHashOk) /\ (o.rowReadBack => o.rowHashOk))
      : i \in 1..Len(r.obs)}
OInit == l = 0 /\ viol = {} /\ cnt = [n \in Names |-> 0] /\ TLCSet(1, {}) /\ TLCSet(2, [n \in Names |-> 0])
ONext ==
    /\ l < Len(Results)
    /\ l' = l + 1
    /\ LET f == Failing(Results[l + 1]) IN
       /\ cnt' = [n \in Names |-> IF n \in f THEN cnt[n] + 1 ELSE cnt[n]]
       /\ viol' = viol \cup {<<n, l + 1>> : n \in {m \in f : cnt[m] < MaxReport}}
    /\ TLCSet(1, viol') /\ TLCSet(2, cnt')
OSpec == OInit /\ [][ONext]_ovars
Post == PrintT(<<"OBS-VERDICT", TLCGet(1)>>) /\ PrintT(<<"OBS-COUNTS", TLCGet(2)>>)
=============================================================================
