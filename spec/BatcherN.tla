------------------------------ MODULE BatcherN ------------------------------
(* The log batcher of Batcher.tla generalised to the job runner's `nbWorkers`    *)
(* parameter (internal/engine/utils/job/jobs.go): `parkedWorkers` is a counter,  *)
(* `jobs` and `terminatedJobs` are channels of capacity nbWorkers, each worker   *)
(* holds at most one batch at the store.                                         *)
(*                                                                               *)
(* Purpose (DESIGN section 10, item 5): the Commander builds the batcher with    *)
(* ONE worker (commander.go: batching.NewBatcher(store.InsertLogs, 1, 4096)) and *)
(* the ordering half of C05 rests on that constant. With Workers = 1 this module *)
(* refines Batcher.tla (property RefinesBatcher, checked by TLC) and every       *)
(* invariant holds; with Workers = 2 TLC shows the schedule in which a later     *)
(* batch reaches the store before an earlier one (Fifo fails) while nothing is   *)
(* lost and acknowledgements still follow storage - i.e. exactly the ordering    *)
(* guarantee is what the constant buys. The engine replays catch the same change *)
(* on the code (seeded/C05/h2-two-batcher-workers).                              *)
EXTENDS Integers, Sequences, FiniteSets, TLC, SequencesExt

CONSTANTS MaxItems, MaxBatch, Workers

VARIABLES pending,    \* items waiting for a batch
          nextItem,   \* items are 1, 2, 3, ... in append order
          signals,    \* appenders blocked in Runner.Next()
          parked,     \* number of workers the loop believes parked
          jobs,       \* channel of batches handed out, not yet taken (capacity Workers)
          running,    \* worker -> batch it is storing, or None
          done,       \* channel of stored batches whose completion the loop has not seen
          stored,     \* everything handed to the store, in order of the store calls returning
          acked       \* acknowledgements fired, in order
vars == <<pending, nextItem, signals, parked, jobs, running, done, stored, acked>>

None == <<>>
W == 1..Workers

Cut(p) == IF Len(p) <= MaxBatch THEN [batch |-> p, rest |-> <<>>]
          ELSE [batch |-> SubSeq(p, 1, MaxBatch), rest |-> SubSeq(p, MaxBatch + 1, Len(p))]

Init == /\ pending = <<>> /\ nextItem = 1 /\ signals = 0 /\ parked = Workers /\ jobs = <<>>
        /\ running = [w \in W |-> None] /\ done = <<>> /\ stored = <<>> /\ acked = <<>>

AppendItem ==
    /\ nextItem <= MaxItems
    /\ pending' = Append(pending, nextItem)
    /\ nextItem' = nextItem + 1
    /\ signals' = signals + 1
    /\ UNCHANGED <<parked, jobs, running, done, stored, acked>>

LoopSignal ==
    /\ signals > 0
    /\ signals' = signals - 1
    /\ IF parked > 0 /\ pending # <<>>
       THEN /\ jobs' = Append(jobs, Cut(pending).batch) /\ pending' = Cut(pending).rest /\ parked' = parked - 1
       ELSE UNCHANGED <<jobs, pending, parked>>
    /\ UNCHANGED <<nextItem, running, done, stored, acked>>

WorkerTake(w) ==
    /\ jobs # <<>> /\ running[w] = None
    /\ running' = [running EXCEPT ![w] = Head(jobs)] /\ jobs' = Tail(jobs)
    /\ UNCHANGED <<pending, nextItem, signals, parked, done, stored, acked>>

WorkerDone(w) ==
    /\ running[w] # None
    /\ stored' = stored \o running[w]
    /\ done' = Append(done, running[w]) /\ running' = [running EXCEPT ![w] = None]
    /\ UNCHANGED <<pending, nextItem, signals, parked, jobs, acked>>

LoopTerminated ==
    /\ done # <<>>
    /\ acked' = acked \o Head(done)
    /\ done' = Tail(done)
    /\ IF pending # <<>>
       THEN /\ jobs' = Append(jobs, Cut(pending).batch) /\ pending' = Cut(pending).rest /\ UNCHANGED parked
       ELSE /\ parked' = parked + 1 /\ UNCHANGED <<jobs, pending>>
    /\ UNCHANGED <<nextItem, signals, running, stored>>

Next == AppendItem \/ LoopSignal \/ LoopTerminated \/ \E w \in W : WorkerTake(w) \/ WorkerDone(w)
Spec == Init /\ [][Next]_vars
FairSpec == Spec /\ WF_vars(LoopSignal) /\ WF_vars(LoopTerminated)
                 /\ \A w \in W : WF_vars(WorkerTake(w)) /\ WF_vars(WorkerDone(w))

\* ---- properties ----------------------------------------------------------------
Elems(s) == {s[i] : i \in 1..Len(s)}
RECURSIVE Flat(_)
Flat(bs) == IF bs = <<>> THEN <<>> ELSE Head(bs) \o Flat(Tail(bs))
IsPrefixOfNaturals(s) == \A i \in 1..Len(s) : s[i] = i
Fifo == IsPrefixOfNaturals(stored)
AtStore == UNION {Elems(running[w]) : w \in W}
\* nothing lost, nothing duplicated (order aside)
NothingLostSet ==
    /\ Elems(stored) \cup AtStore \cup Elems(Flat(jobs)) \cup Elems(pending) = 1..(nextItem - 1)
    /\ Len(stored) + Len(Flat(jobs)) + Len(pending) + Cardinality(AtStore) = nextItem - 1
BatchBound == /\ \A i \in 1..Len(jobs) : Len(jobs[i]) \in 1..MaxBatch
              /\ \A w \in W : running[w] # None => Len(running[w]) \in 1..MaxBatch
\* channel capacities of the runner are never exceeded (a send would block the loop)
ChannelsFit == Len(jobs) <= Workers /\ Len(done) <= Workers
AckAfterStore == Elems(acked) \subseteq Elems(stored)
AckOnce == \A i, j \in 1..Len(acked) : i # j => acked[i] # acked[j]
AcksInOrder == IsPrefixOfNaturals(acked)
AllStoredEventually == <>[](Len(stored) = nextItem - 1 /\ Len(acked) = nextItem - 1)

\* ---- refinement of the one-worker specification ----------------------------------
B == INSTANCE Batcher WITH CutDesign <- "slice", OutFile <- "", MaxWord <- 0,
        parked <- (parked > 0),
        jobs <- (IF jobs = <<>> THEN <<>> ELSE Head(jobs)),
        running <- running[1],
        done <- (IF done = <<>> THEN <<>> ELSE Head(done))
RefinesBatcher == B!Spec
=============================================================================
