------------------------------- MODULE Engine -------------------------------
(* Specification of the write path of one ledger:                            *)
(*   command.Commander + executionContext + Referencer + DefaultLocker       *)
(*   + batching.Batcher / job.Runner (one worker) + the command.Store        *)
(*   contract + bus.Monitor,                                                  *)
(* at the grain of the code between two `verifhook.Yield` points of          *)
(* internal/engine/command/{commander,context,lock}.go: pc[p] is the name of *)
(* the yield point at which request p is parked, one action = the code       *)
(* between two yield points. The store is the persisted log; balances,        *)
(* transactions, reverted flags, references, idempotency keys and account     *)
(* metadata are derived from it (the contract of command.Store).              *)
(*                                                                            *)
(* Design switches (CONSTANTS) are set to what the code does (design.json);   *)
(* negative configs flip one switch and must be rejected by TLC.              *)
EXTENDS EngineProps, TLC

CONSTANTS
    Procs,              \* request identifiers
    Palette,            \* sequence of request records the population is drawn from
    UnlockAt,           \* "early": account locks dropped right after acquisition
                        \* "persisted": held until the log is persisted (or the request fails)
    RefRelease,         \* "execReturn": reference reservation dropped when the executor returns
                        \* "persisted": held until the log is persisted
    SeqAtomic,          \* TRUE: tx-id allocation + chaining + hand-off to the batcher are one critical section
    DryRunAllocates,    \* TRUE: a preview consumes a transaction id
    DryRunPublishes,    \* TRUE: a preview publishes an event
    RevertEventSwapped, \* TRUE: the revert event names the two transactions the wrong way round
    MetaSourceLocked,   \* TRUE: a source account obtained through meta() is write-locked
    AckWaitsPersist,    \* TRUE: run() blocks until the Terminated callback of its log has run
    IkSpan,             \* "run": the idempotency key is reserved until run() returns (covers the wait)
                        \* "exec": it is dropped when the executor returns
    RevertGuard,        \* TRUE: RevertTransaction reserves the target id while it runs
    MetaLogsCarryIk,    \* TRUE: metadata logs carry the idempotency key of their request
    CancelAbortsWait,   \* TRUE: a cancelled request stops waiting for the persistence of its log and reports an error
    SeedTx,             \* TRUE: the ledger starts with transaction 0 (world -> A 3); FALSE: its history holds metadata entries only
    ReplayFromRequest,  \* TRUE: a request answered through its idempotency key builds its answer and its event from its own
                        \* kind and arguments (as coded: the public method does not compare the stored entry with the request);
                        \* FALSE: from the stored entry
    LookupErrorIgnored, \* TRUE: a failing store lookup of the idempotency key / the reference is taken for "unknown" and the request is executed
    MaxReadFail,        \* number of failing store lookups (key, reference, transaction to revert) per behaviour
    MaxCancel,          \* number of request contexts cancelled per behaviour
    MaxCrash            \* number of crash/restart cycles explored

VARIABLES
    req,        \* [Procs -> request record]   (population, chosen in Init)
    pc,         \* [Procs -> yield point | "start" | "finished" | "dead"]
    loc,        \* [Procs -> locals of the request]
    store,      \* persisted log (sequence of log records)
    lastLog,    \* id of the last chained log of the running commander (-1: none)
    lastTx,     \* last allocated transaction id of the running commander (-1: none)
    refs,       \* Referencer: set of <<class, key>>
    rl, wl, lq, \* DefaultLocker: read counters, write set, queue of waiting requests
    seqOwner,   \* holder of the sequencing critical section (SeqAtomic) or "none"
    pending,    \* Batcher.pending (sequence of chained logs)
    inflight,   \* batch handed to the single worker (<<>> when the worker is parked)
    doneSet,    \* ids of logs whose Terminated callback has run
    resp,       \* [Procs -> response]
    events,     \* sequence of published events
    gen,        \* commander generation (0 before the crash, 1 after restart)
    crashes,
    rfail,      \* store lookups that failed so far
    cancelled   \* requests whose context has been cancelled by their caller

vars == <<req, pc, loc, store, lastLog, lastTx, refs, rl, wl, lq, seqOwner, pending, inflight,
          doneSet, resp, events, gen, crashes, rfail, cancelled>>

\* "BE": account B in a second asset (the harness maps it to the same address, asset EUR)
Accts == {"A", "B", "BE", "C", "M", "world"}
\* accounts as seen by the lock manager: "" is what an unregistered source shows up as
LockAccts == Accts \cup {""}
Zero == [a \in Accts |-> 0]
NoLog == [id |-> -1]

\* ---------------------------------------------------------------- log records
MkLog(id, kind, by, txid, target, tacct, mval, postings, ref, ik, od) ==
    [id |-> id, kind |-> kind, by |-> by, txid |-> txid, target |-> target, tacct |-> tacct,
     mval |-> mval, postings |-> postings, ref |-> ref, ik |-> ik, od |-> od]

P(s, d, a) == [src |-> s, dst |-> d, amt |-> a]

\* the ledger before the requests: world -> A 3 (tx 0) and metadata M.payer = "A"
InitStore == IF SeedTx
             THEN <<MkLog(0, "tx", "init", 0, -1, "", "", <<P("world", "A", 3)>>, "", "", FALSE),
                    MkLog(1, "set", "init", -1, -1, "M", "A", <<>>, "", "", FALSE)>>
             ELSE <<MkLog(0, "set", "init", -1, -1, "M", "A", <<>>, "", "", FALSE)>>

\* ---------------------------------------------------------------- store reads
Bal(a) == BalancesOf(store, Zero)[a]
MoneyIdx(t) == {i \in 1..Len(store) : IsMoney(store[i]) /\ store[i].txid = t}
TxExists(t) == MoneyIdx(t) # {}
TxPostings(t) == store[CHOOSE i \in MoneyIdx(t) : TRUE].postings
Reverted(t) == \E i \in 1..Len(store) : store[i].kind = "rev" /\ store[i].target = t
RefUsed(r) == \E i \in 1..Len(store) : IsMoney(store[i]) /\ store[i].ref = r
IkIdx(k) == {i \in 1..Len(store) : store[i].ik = k}
IkHit(k) == IkIdx(k) # {}
IkLog(k) == store[CHOOSE i \in IkIdx(k) : \A j \in IkIdx(k) : i <= j]
PayerIdx == {i \in 1..Len(store) : store[i].kind \in {"set", "del"} /\ store[i].tacct = "M"}
Payer == LET i == CHOOSE i \in PayerIdx : \A j \in PayerIdx : j <= i
         IN IF store[i].kind = "set" THEN store[i].mval ELSE "none"
LastLogIdOf(s) == IF s = <<>> THEN -1 ELSE s[Len(s)].id
LastTxIdOf(s) == LET m == MoneyLogs(s) IN IF m = <<>> THEN -1 ELSE m[Len(m)].txid

\* ---------------------------------------------------------------- requests
IsTxKind(r) == r.kind \in {"create", "revert"}
Blank == [lockR |-> {}, lockW |-> {}, holding |-> FALSE, granted |-> FALSE, posts |-> <<>>,
          txid |-> -1, log |-> NoLog, keys |-> {}, hit |-> NoLog]

NoResp == [st |-> "none", logid |-> -1, txid |-> -1, dry |-> FALSE, ik |-> "", code |-> ""]
MkResp(p, st, logid, txid, code) ==
    [st |-> st, logid |-> logid, txid |-> txid, dry |-> req[p].dry, ik |-> req[p].ik, code |-> code]

PaletteIdx(r) == CHOOSE i \in 1..Len(Palette) : Palette[i] = r
ProcSeq == CHOOSE s \in [1..Cardinality(Procs) -> Procs] : \A i, j \in 1..Cardinality(Procs) : i # j => s[i] # s[j]
\* populations: one palette entry per request, up to the order of the requests
Populations ==
    {f \in [Procs -> Range(Palette)] :
        \A i, j \in 1..Cardinality(Procs) : i < j => PaletteIdx(f[ProcSeq[i]]) <= PaletteIdx(f[ProcSeq[j]])}

Init ==
    /\ req \in Populations
    /\ pc = [p \in Procs |-> "start"]
    /\ loc = [p \in Procs |-> Blank]
    /\ store = InitStore
    /\ lastLog = LastLogIdOf(InitStore)
    /\ lastTx = LastTxIdOf(InitStore)
    /\ refs = {}
    /\ rl = [a \in LockAccts |-> 0] /\ wl = {} /\ lq = <<>>
    /\ seqOwner = "none"
    /\ pending = <<>> /\ inflight = <<>> /\ doneSet = {}
    /\ resp = [p \in Procs |-> NoResp]
    /\ events = <<>>
    /\ gen = 0 /\ crashes = 0 /\ rfail = 0 /\ cancelled = {}

\* ---------------------------------------------------------------- lock manager (see Lock.tla)
Compat(r, w, rlc, wlc) == r \cap wlc = {} /\ \A x \in w : rlc[x] = 0 /\ x \notin wlc
TakeR(rlc, r) == [x \in LockAccts |-> IF x \in r THEN rlc[x] + 1 ELSE rlc[x]]
DropR(rlc, r) == [x \in LockAccts |-> IF x \in r THEN rlc[x] - 1 ELSE rlc[x]]

RECURSIVE Scan(_, _, _)
Scan(q, rlc, wlc) ==
    IF q = <<>> THEN [rl |-> rlc, wl |-> wlc, granted |-> {}, rest |-> <<>>]
    ELSE LET h == Head(q) IN
         IF Compat(loc[h].lockR, loc[h].lockW, rlc, wlc)
         THEN LET t == Scan(Tail(q), TakeR(rlc, loc[h].lockR), wlc \cup loc[h].lockW)
              IN  [t EXCEPT !.granted = @ \cup {h}]
         ELSE LET t == Scan(Tail(q), rlc, wlc)
              IN  [t EXCEPT !.rest = <<h>> \o @]

\* lock tables after p gives its locks back (if it holds any)
AfterUnlock(p) ==
    IF loc[p].holding
    THEN Scan(lq, DropR(rl, loc[p].lockR), wl \ loc[p].lockW)
    ELSE [rl |-> rl, wl |-> wl, granted |-> {}, rest |-> lq]

\* ---------------------------------------------------------------- generic tails
\* p leaves the commander with response r: every reservation and lock it still holds is released
ReturnWith(p, r, u) ==
    /\ rl' = u.rl /\ wl' = u.wl /\ lq' = u.rest
    /\ loc' = [q \in Procs |-> IF q = p THEN Blank
                               ELSE IF q \in u.granted THEN [loc[q] EXCEPT !.granted = TRUE] ELSE loc[q]]
    /\ refs' = refs \ loc[p].keys
    /\ seqOwner' = IF seqOwner = p THEN "none" ELSE seqOwner
    /\ pc' = [pc EXCEPT ![p] = "finished"]
    /\ resp' = [resp EXCEPT ![p] = r]

Return(p, r) == ReturnWith(p, r, AfterUnlock(p))

Goto(p, point) == pc' = [pc EXCEPT ![p] = point]
Fail(p, code) == Return(p, MkResp(p, "err", -1, -1, code))

\* ---------------------------------------------------------------- sub-steps
\* run(): reserve the idempotency key
S_IkTake(p) ==
    LET k == <<"ik", req[p].ik>> IN
    IF k \in refs
    THEN /\ Fail(p, "ik-taken")
         /\ UNCHANGED <<store, lastLog, lastTx, pending, inflight, doneSet, events>>
    ELSE /\ refs' = refs \cup {k}
         /\ loc' = [loc EXCEPT ![p].keys = @ \cup {k}]
         /\ Goto(p, "ik.taken")
         /\ UNCHANGED <<store, lastLog, lastTx, rl, wl, lq, seqOwner, pending, inflight, doneSet, resp, events>>

\* run(): look the key up in the store
S_IkLookup(p) ==
    /\ IF IkHit(req[p].ik)
       THEN loc' = [loc EXCEPT ![p].hit = IkLog(req[p].ik)] /\ Goto(p, "ik.hit")
       ELSE loc' = loc /\ Goto(p, "ik.checked")
    /\ UNCHANGED <<store, lastLog, lastTx, refs, rl, wl, lq, seqOwner, pending, inflight, doneSet, resp, events>>

\* exec(): reserve the transaction reference
S_RefTake(p) ==
    LET k == <<"ref", req[p].ref>> IN
    IF k \in refs
    THEN /\ Fail(p, "conflict")
         /\ UNCHANGED <<store, lastLog, lastTx, pending, inflight, doneSet, events>>
    ELSE /\ refs' = refs \cup {k}
         /\ loc' = [loc EXCEPT ![p].keys = @ \cup {k}]
         /\ Goto(p, "ref.taken")
         /\ UNCHANGED <<store, lastLog, lastTx, rl, wl, lq, seqOwner, pending, inflight, doneSet, resp, events>>

S_RefLookup(p) ==
    IF RefUsed(req[p].ref)
    THEN /\ Fail(p, "conflict")
         /\ UNCHANGED <<store, lastLog, lastTx, pending, inflight, doneSet, events>>
    ELSE /\ Goto(p, "ref.checked")
         /\ UNCHANGED <<loc, store, lastLog, lastTx, refs, rl, wl, lq, seqOwner, pending, inflight, doneSet, resp, events>>

\* postings the request will execute, with the metadata-designated source resolved
Resolved(p) ==
    IF req[p].kind = "revert" THEN ReversePostings(TxPostings(req[p].target))
    ELSE [i \in 1..Len(req[p].postings) |->
            IF req[p].postings[i].src = "$payer"
            THEN [req[p].postings[i] EXCEPT !.src = Payer] ELSE req[p].postings[i]]

\* locks are per address: "BE" is address B in the second asset
Addr(a) == IF a = "BE" THEN "B" ELSE a
SourcesOf(ps) == {Addr(ps[i].src) : i \in 1..Len(ps)} \ {"world"}
TouchedBy(ps) == ({Addr(ps[i].src) : i \in 1..Len(ps)} \cup {Addr(ps[i].dst) : i \in 1..Len(ps)}) \ {"world"}

\* exec(): compile, bind variables, resolve resources (reads account metadata), derive the lock sets
S_Resolve(p) ==
    IF req[p].kind = "create" /\ req[p].mode = "meta" /\ Payer = "none"
    THEN /\ Fail(p, "missing-metadata")
         /\ UNCHANGED <<store, lastLog, lastTx, pending, inflight, doneSet, events>>
    ELSE LET ps == Resolved(p)
             viaMeta == req[p].kind = "create" /\ req[p].mode = "meta"
             w == IF viaMeta /\ ~MetaSourceLocked THEN {""} ELSE SourcesOf(ps)
             r == (IF viaMeta THEN (TouchedBy(ps) \ SourcesOf(ps)) \cup {"M"} ELSE TouchedBy(ps))
                  \cup (IF viaMeta /\ MetaSourceLocked THEN SourcesOf(ps) ELSE {})
         IN /\ loc' = [loc EXCEPT ![p].posts = ps, ![p].lockR = r, ![p].lockW = w]
            /\ Goto(p, "resolved")
            /\ UNCHANGED <<store, lastLog, lastTx, refs, rl, wl, lq, seqOwner, pending, inflight, doneSet, resp, events>>

\* exec(): Locker.Lock - granted at once or queued
S_LockReq(p) ==
    /\ IF Compat(loc[p].lockR, loc[p].lockW, rl, wl)
       THEN /\ rl' = TakeR(rl, loc[p].lockR) /\ wl' = wl \cup loc[p].lockW /\ lq' = lq
            /\ loc' = [loc EXCEPT ![p].holding = TRUE]
            /\ Goto(p, "locked")
       ELSE /\ lq' = Append(lq, p) /\ UNCHANGED <<rl, wl>>
            /\ loc' = loc
            /\ Goto(p, "lock.wait")
    /\ UNCHANGED <<store, lastLog, lastTx, refs, seqOwner, pending, inflight, doneSet, resp, events>>

\* the waiter's select: it observes its grant, or (context cancelled) gives up. When both
\* are ready Go takes either branch. Giving up removes the intent from the queue or gives
\* back a grant that arrived meanwhile (and rechecks the queue).
S_LockObserve(p) ==
    \/ /\ loc[p].granted
       /\ loc' = [loc EXCEPT ![p].granted = FALSE, ![p].holding = TRUE]
       /\ Goto(p, "locked")
       /\ UNCHANGED <<store, lastLog, lastTx, refs, rl, wl, lq, seqOwner, pending, inflight, doneSet, resp, events>>
    \/ /\ p \in cancelled
       /\ LET u == IF loc[p].granted
                   THEN Scan(lq, DropR(rl, loc[p].lockR), wl \ loc[p].lockW)
                   ELSE [rl |-> rl, wl |-> wl, granted |-> {}, rest |-> SelectSeq(lq, LAMBDA x : x # p)]
          IN ReturnWith(p, MkResp(p, "err", -1, -1, "lock-cancelled"), u)
       /\ UNCHANGED <<store, lastLog, lastTx, pending, inflight, doneSet, events>>

\* exec(): [unlock if UnlockAt = "early"] ResolveBalances + vm.Run
S_ReadRun(p) ==
    LET early == UnlockAt = "early"
        u == IF early THEN AfterUnlock(p) ELSE [rl |-> rl, wl |-> wl, granted |-> {}, rest |-> lq]
        \* mode "bal": the amount is a balance() variable of the source, resolved here (negative: refused)
        viaBal == req[p].kind = "create" /\ req[p].mode = "bal"
        src == loc[p].posts[1].src
        posts == IF viaBal THEN <<[loc[p].posts[1] EXCEPT !.amt = Bal(src)]>> ELSE loc[p].posts
        \* mode "wvar": @world reached through a variable has no overdraft allowance (the allowance is given to the literal at compile time)
        worldBounded == req[p].kind = "create" /\ req[p].mode = "wvar"
                        /\ \E i \in 1..Len(loc[p].posts) : loc[p].posts[i].src = "world" /\ loc[p].posts[i].amt > 0
        covered == IF viaBal THEN Bal(src) >= 0
                   ELSE ~worldBounded /\ (req[p].od \/ PostingsCovered(BalancesOf(store, Zero), loc[p].posts))
    IN  IF covered
        THEN /\ rl' = u.rl /\ wl' = u.wl /\ lq' = u.rest
             /\ loc' = [q \in Procs |-> IF q = p THEN [loc[p] EXCEPT !.holding = IF early THEN FALSE ELSE @, !.posts = posts]
                                        ELSE IF q \in u.granted THEN [loc[q] EXCEPT !.granted = TRUE] ELSE loc[q]]
             /\ Goto(p, "ran")
             /\ UNCHANGED <<store, lastLog, lastTx, refs, seqOwner, pending, inflight, doneSet, resp, events>>
        ELSE /\ Fail(p, IF viaBal THEN "negative-amount" ELSE "insufficient")
             /\ UNCHANGED <<store, lastLog, lastTx, pending, inflight, doneSet, events>>

\* exec(): nextTXID()
S_AllocTx(p) ==
    /\ (SeqAtomic /\ ~req[p].dry) => seqOwner = "none"
    /\ seqOwner' = IF SeqAtomic /\ ~req[p].dry THEN p ELSE seqOwner
    /\ IF req[p].dry /\ ~DryRunAllocates
       THEN lastTx' = lastTx
       ELSE lastTx' = lastTx + 1
    /\ loc' = [loc EXCEPT ![p].txid = lastTx + 1]
    /\ Goto(p, "txid")
    /\ UNCHANGED <<store, lastLog, refs, rl, wl, lq, pending, inflight, doneSet, resp, events>>

\* the log record the request appends
LogOf(p, id) ==
    LET r == req[p] IN
    CASE r.kind = "create"  -> MkLog(id, "tx", p, loc[p].txid, -1, "", r.mval, loc[p].posts, r.ref, r.ik, r.od)
      [] r.kind = "revert"  -> MkLog(id, "rev", p, loc[p].txid, r.target, "", "", loc[p].posts, "", r.ik, r.od)
      [] r.kind = "setmeta" -> MkLog(id, "set", p, -1, r.target, r.tacct, r.mval, <<>>, "", IF MetaLogsCarryIk THEN r.ik ELSE "", FALSE)
      [] r.kind = "delmeta" -> MkLog(id, "del", p, -1, r.target, r.tacct, "", <<>>, "", IF MetaLogsCarryIk THEN r.ik ELSE "", FALSE)

\* AppendLog(): chainLog() under the commander mutex - or the dry-run branch
S_Chain(p) ==
    IF req[p].dry
    THEN /\ loc' = [loc EXCEPT ![p].log = LogOf(p, 0)]
         /\ Goto(p, "dryrun")
         /\ UNCHANGED <<store, lastLog, lastTx, refs, rl, wl, lq, seqOwner, pending, inflight, doneSet, resp, events>>
    ELSE /\ (SeqAtomic /\ ~IsTxKind(req[p])) => seqOwner = "none"
         /\ seqOwner' = IF SeqAtomic THEN p ELSE seqOwner
         /\ lastLog' = lastLog + 1
         /\ loc' = [loc EXCEPT ![p].log = LogOf(p, lastLog + 1)]
         /\ Goto(p, "chained")
         /\ UNCHANGED <<store, lastTx, refs, rl, wl, lq, pending, inflight, doneSet, resp, events>>

\* AppendLog(): Batcher.Append; the parked worker takes everything that is pending
S_Append(p) ==
    /\ IF inflight = <<>>
       THEN inflight' = Append(pending, loc[p].log) /\ pending' = <<>>
       ELSE pending' = Append(pending, loc[p].log) /\ inflight' = inflight
    /\ Goto(p, "appended")
    /\ UNCHANGED <<loc, store, lastLog, lastTx, refs, rl, wl, lq, seqOwner, doneSet, resp, events>>

\* the executor returns: its deferred releases run
S_ExecReturn(p) ==
    LET k == {x \in loc[p].keys : (x[1] = "ref" /\ RefRelease = "execReturn") \/ (x[1] = "ik" /\ IkSpan = "exec")} IN
    /\ refs' = refs \ k /\ loc' = [loc EXCEPT ![p].keys = @ \ k]
    /\ seqOwner' = IF seqOwner = p THEN "none" ELSE seqOwner
    /\ Goto(p, "waitdone")
    /\ UNCHANGED <<store, lastLog, lastTx, rl, wl, lq, pending, inflight, doneSet, resp, events>>

\* <-done : enabled once the Terminated callback of the log has run
S_WaitDone(p) ==
    \/ /\ req[p].dry \/ loc[p].log.id \in doneSet \/ ~AckWaitsPersist
       /\ Goto(p, "done")
       /\ UNCHANGED <<loc, store, lastLog, lastTx, refs, rl, wl, lq, seqOwner, pending, inflight, doneSet, resp, events>>
    \/ /\ CancelAbortsWait /\ p \in cancelled /\ ~req[p].dry /\ loc[p].log.id \notin doneSet
       /\ Fail(p, "cancelled")
       /\ UNCHANGED <<store, lastLog, lastTx, pending, inflight, doneSet, events>>

\* run() returns to the public method: remaining reservations and locks are released,
\* except the revert reservation which is held until the public method returns
S_RunReturn(p) ==
    LET u == AfterUnlock(p)
        k == {x \in loc[p].keys : x[1] # "rev"}
    IN  /\ rl' = u.rl /\ wl' = u.wl /\ lq' = u.rest
        /\ loc' = [q \in Procs |-> IF q = p THEN [loc[p] EXCEPT !.holding = FALSE, !.keys = @ \ k]
                                   ELSE IF q \in u.granted THEN [loc[q] EXCEPT !.granted = TRUE] ELSE loc[q]]
        /\ refs' = refs \ k
        /\ Goto(p, "publish")
        /\ UNCHANGED <<store, lastLog, lastTx, seqOwner, pending, inflight, doneSet, resp, events>>

\* the log the caller is answered with: its own, or the one found under its idempotency key
Answer(p) == IF loc[p].hit # NoLog THEN loc[p].hit ELSE loc[p].log

\* the kind of entry a request produces
KindOfReq(p) == CASE req[p].kind = "create" -> "tx" [] req[p].kind = "revert" -> "rev"
                  [] req[p].kind = "setmeta" -> "set" [] OTHER -> "del"
\* answered from an entry found under the idempotency key, by a method that trusts it to be its own
OwnAnswer(p) == loc[p].hit # NoLog /\ ReplayFromRequest
\* CreateTransaction / RevertTransaction assert the payload type of the entry they are handed
ReplayPanics(p) == OwnAnswer(p) /\ req[p].kind \in {"create", "revert"} /\ Answer(p).kind # KindOfReq(p)

EventOf(p) ==
    LET l == Answer(p)
        k == IF OwnAnswer(p) THEN KindOfReq(p) ELSE l.kind
        swapped == k = "rev" /\ RevertEventSwapped
        tgt == IF OwnAnswer(p) /\ k # "tx" THEN req[p].target ELSE l.target
        txi == IF k \in {"tx", "rev"} THEN l.txid ELSE -1
    IN  [type |-> CASE k = "tx" -> "committed" [] k = "rev" -> "reverted"
                    [] k = "set" -> "saved" [] k = "del" -> "deleted",
         by |-> p, ik |-> req[p].ik,
         txid |-> IF swapped THEN tgt ELSE txi,
         target |-> IF swapped THEN txi ELSE tgt,
         tacct |-> IF OwnAnswer(p) /\ k \in {"set", "del"} THEN req[p].tacct ELSE l.tacct,
         postings |-> l.postings,
         mval |-> IF OwnAnswer(p) /\ k = "set" THEN req[p].mval ELSE IF OwnAnswer(p) /\ k = "del" THEN "" ELSE l.mval]

\* the public method publishes and returns
S_Publish(p) ==
    IF ReplayPanics(p)
    THEN /\ Return(p, MkResp(p, "panic", -1, -1, ""))
         /\ UNCHANGED <<store, lastLog, lastTx, pending, inflight, doneSet, events>>
    ELSE /\ events' = IF req[p].dry /\ ~DryRunPublishes THEN events ELSE Append(events, EventOf(p))
         /\ Return(p, MkResp(p, "ok", Answer(p).id,
                             IF OwnAnswer(p) /\ KindOfReq(p) \in {"set", "del"} THEN -1 ELSE Answer(p).txid, ""))
         /\ UNCHANGED <<store, lastLog, lastTx, pending, inflight, doneSet>>

\* RevertTransaction(): in-flight guard, then read the target
S_RevTake(p) ==
    LET k == <<"rev", req[p].target>> IN
    IF RevertGuard /\ k \in refs
    THEN /\ Fail(p, "revert-occurring")
         /\ UNCHANGED <<store, lastLog, lastTx, pending, inflight, doneSet, events>>
    ELSE /\ refs' = IF RevertGuard THEN refs \cup {k} ELSE refs
         /\ loc' = IF RevertGuard THEN [loc EXCEPT ![p].keys = @ \cup {k}] ELSE loc
         /\ Goto(p, "rev.taken")
         /\ UNCHANGED <<store, lastLog, lastTx, rl, wl, lq, seqOwner, pending, inflight, doneSet, resp, events>>

S_RevRead(p) ==
    IF ~TxExists(req[p].target) \/ Reverted(req[p].target)
    THEN /\ Fail(p, IF TxExists(req[p].target) THEN "already-reverted" ELSE "not-found")
         /\ UNCHANGED <<store, lastLog, lastTx, pending, inflight, doneSet, events>>
    ELSE /\ Goto(p, "rev.read")
         /\ UNCHANGED <<loc, store, lastLog, lastTx, refs, rl, wl, lq, seqOwner, pending, inflight, doneSet, resp, events>>

\* SaveMeta / DeleteMetadata: the target transaction must exist
S_MetaCheck(p) ==
    IF req[p].tacct = "" /\ ~TxExists(req[p].target)
    THEN /\ Fail(p, "not-found")
         /\ UNCHANGED <<store, lastLog, lastTx, pending, inflight, doneSet, events>>
    ELSE /\ Goto(p, "meta.ready")
         /\ UNCHANGED <<loc, store, lastLog, lastTx, refs, rl, wl, lq, seqOwner, pending, inflight, doneSet, resp, events>>

\* ---------------------------------------------------------------- dispatch
\* first segment of executionContext.run for p
EnterRun(p) ==
    IF req[p].ik # "" THEN S_IkTake(p)
    ELSE IF IsTxKind(req[p]) THEN (IF req[p].ref # "" THEN S_RefTake(p) ELSE S_Resolve(p))
    ELSE S_MetaCheck(p)

AfterIk(p) ==
    IF IsTxKind(req[p]) THEN (IF req[p].ref # "" THEN S_RefTake(p) ELSE S_Resolve(p))
    ELSE S_MetaCheck(p)

Step(p) ==
    /\ UNCHANGED <<req, gen, crashes, rfail, cancelled>>
    /\ CASE pc[p] = "start"       -> /\ req[p].gen = gen
                                     /\ IF req[p].kind = "revert" THEN S_RevTake(p) ELSE EnterRun(p)
         [] pc[p] = "rev.taken"   -> S_RevRead(p)
         [] pc[p] = "rev.read"    -> EnterRun(p)
         [] pc[p] = "ik.taken"    -> S_IkLookup(p)
         [] pc[p] = "ik.hit"      -> S_RunReturn(p)
         [] pc[p] = "ik.checked"  -> AfterIk(p)
         [] pc[p] = "ref.taken"   -> S_RefLookup(p)
         [] pc[p] = "ref.checked" -> S_Resolve(p)
         [] pc[p] = "resolved"    -> S_LockReq(p)
         [] pc[p] = "lock.wait"   -> S_LockObserve(p)
         [] pc[p] = "locked"      -> S_ReadRun(p)
         [] pc[p] = "ran"         -> S_AllocTx(p)
         [] pc[p] = "txid"        -> S_Chain(p)
         [] pc[p] = "meta.ready"  -> S_Chain(p)
         [] pc[p] = "chained"     -> S_Append(p)
         [] pc[p] = "appended"    -> S_ExecReturn(p)
         [] pc[p] = "dryrun"      -> S_ExecReturn(p)
         [] pc[p] = "waitdone"    -> S_WaitDone(p)
         [] pc[p] = "done"        -> S_RunReturn(p)
         [] pc[p] = "publish"     -> S_Publish(p)
         [] OTHER                 -> FALSE

\* ---------------------------------------------------------------- batcher / store / crash
IdsOf(s) == {s[i].id : i \in 1..Len(s)}

\* InsertLogs succeeds: the batch is durable, the callbacks run, the next batch leaves
Persist ==
    /\ inflight # <<>>
    /\ store' = store \o inflight
    /\ doneSet' = doneSet \cup IdsOf(inflight)
    /\ inflight' = pending /\ pending' = <<>>
    /\ UNCHANGED <<req, pc, loc, lastLog, lastTx, refs, rl, wl, lq, seqOwner, resp, events, gen, crashes, rfail, cancelled>>

Live(p) == pc[p] \notin {"start", "finished", "dead"}

\* the process dies and a new commander is initialised from the store. applied: the
\* batch in flight had been written before the death (no acknowledgement was sent)
Crash(applied) ==
    /\ crashes < MaxCrash
    /\ gen = 0
    /\ \E p \in Procs : Live(p)
    /\ applied => inflight # <<>>
    /\ LET s == IF applied THEN store \o inflight ELSE store IN
       /\ store' = s
       /\ lastLog' = LastLogIdOf(s)
       /\ lastTx' = LastTxIdOf(s)
    /\ pc' = [p \in Procs |-> IF req[p].gen = 0 /\ pc[p] # "finished" THEN "dead" ELSE pc[p]]
    /\ resp' = [p \in Procs |-> IF req[p].gen = 0 /\ Live(p) THEN [resp[p] EXCEPT !.st = "lost"] ELSE resp[p]]
    /\ loc' = [p \in Procs |-> Blank]
    /\ refs' = {} /\ rl' = [a \in LockAccts |-> 0] /\ wl' = {} /\ lq' = <<>> /\ seqOwner' = "none"
    /\ pending' = <<>> /\ inflight' = <<>> /\ doneSet' = {}
    /\ gen' = 1 /\ crashes' = crashes + 1
    /\ UNCHANGED <<req, events, rfail, cancelled>>

\* the caller of a request in flight cancels its context
Cancel(p) ==
    /\ Live(p) /\ p \notin cancelled /\ Cardinality(cancelled) < MaxCancel
    /\ cancelled' = cancelled \cup {p}
    /\ UNCHANGED <<req, pc, loc, store, lastLog, lastTx, refs, rl, wl, lq, seqOwner, pending, inflight,
                   doneSet, resp, events, gen, crashes, rfail>>

\* the store fails one of the lookups a request makes before it executes - of its idempotency key
\* (ReadLogWithIdempotencyKey), of its reference (GetTransactionByReference), of the transaction to revert
\* (GetTransaction) - with an error that is not "not found": the request is refused, since whether the key or the
\* reference was used is unknown
ReadFail(p) ==
    /\ pc[p] \in {"ik.taken", "ref.taken", "rev.taken"} /\ rfail < MaxReadFail
    /\ rfail' = rfail + 1
    /\ UNCHANGED <<req, gen, crashes, cancelled>>
    /\ IF LookupErrorIgnored /\ pc[p] # "rev.taken"
       THEN /\ loc' = loc /\ Goto(p, IF pc[p] = "ik.taken" THEN "ik.checked" ELSE "ref.checked")
            /\ UNCHANGED <<store, lastLog, lastTx, refs, rl, wl, lq, seqOwner, pending, inflight, doneSet, resp, events>>
       ELSE /\ Fail(p, "read-failed")
            /\ UNCHANGED <<store, lastLog, lastTx, pending, inflight, doneSet, events>>

Next == (\E p \in Procs : Step(p) \/ Cancel(p) \/ ReadFail(p)) \/ Persist \/ Crash(TRUE) \/ Crash(FALSE)

Spec == Init /\ [][Next]_vars

\* ---------------------------------------------------------------- properties
DryProcs == {p \in Procs : req[p].dry}
Quiet == \A p \in Procs : pc[p] \in {"finished", "dead"} \/ (pc[p] = "start" /\ req[p].gen # gen)

C02_SerialFunds     == SerialFunds(store, Zero)
C05_IdsGapFree      == IdsGapFree(store)
C05_TxIdsSequential == TxIdsSequential(store)
C06_AckPersisted    == AckPersisted(store, resp)
C06_RejectedLeavesNothing == RejectedLeavesNothing(store, resp)
C06_OneEntryPerRequest    == AtMostOneEntryPerRequest(store, Procs) /\ EveryEntryHasProducer(store, Procs)
C07_IkOnce          == IkOnce(store) /\ IkSameOutcome(resp) /\ IkOncePerRequestKey(store, [p \in Procs |-> req[p].ik])
C10_RevertOnce      == RevertOnce(store) /\ RevertIsInverse(store)
C11_RefOnce         == RefOnce(store)
C14_DryRun          == DryLeavesNoEntry(store, DryProcs) /\ DryPublishesNothing(events, DryProcs)
C14_NoIdConsumed    == TxIdsSequential(store)
C16_EventsFaithful  == EventsFaithful(events, store)
C16_AllPublished    == (Quiet /\ crashes = 0) => AllPublished(events, store, resp)

\* nothing is left behind once every request has been answered
QuiescentClean == Quiet => (refs = {} /\ wl = {} /\ lq = <<>> /\ \A a \in LockAccts : rl[a] = 0 /\ seqOwner = "none")

\* lock manager sanity inside the engine (C15 is decided by Lock.tla)
LocksConsistent ==
    /\ wl = UNION {loc[p].lockW : p \in {q \in Procs : loc[q].holding \/ loc[q].granted}}
    /\ \A p \in Procs : ~(loc[p].holding /\ loc[p].granted)

TypeOK ==
    /\ pc \in [Procs -> {"start", "rev.taken", "rev.read", "ik.taken", "ik.hit", "ik.checked", "ref.taken",
                         "ref.checked", "resolved", "lock.wait", "locked", "ran", "txid", "meta.ready",
                         "chained", "appended", "dryrun", "waitdone", "done", "publish", "finished", "dead"}]
    /\ lastLog \in Int /\ lastTx \in Int
=============================================================================
