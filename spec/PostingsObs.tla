----------------------------- MODULE PostingsObs -----------------------------
(* Verdict for C09: every enumerated posting list was submitted through          *)
(* TxToScriptData -> Commander (small and 2^70-scaled amounts, odd address and     *)
(* asset forms), and through the v2, v1 and bulk endpoints; compared exactly.      *)
EXTENDS Naturals, Sequences, FiniteSets, TLC, Json
CONSTANT ResultFile, MaxReport
Results == ndJsonDeserialize(ResultFile)
VARIABLES l, viol, cnt
ovars == <<l, viol, cnt>>
Names == {"C09_ExactPostings", "C09_RejectedAsAWhole", "C09_SameDecisionAsSpec", "C09_MetadataReferenceTimestamp", "C09_LogIsWhatWasReturned"}
Failing(r) ==
    LET T(name, ok) == IF ok THEN {} ELSE {name} IN
    UNION {
      LET o == r.obs[i] IN
        T("C09_ExactPostings", o.accepted => o.postsExact)
        \cup T("C09_RejectedAsAWhole", ~o.accepted => o.logsAdded = 0)
        \cup T("C09_SameDecisionAsSpec", o.accepted = r.exp.ok)
        \cup T("C09_MetadataReferenceTimestamp", o.accepted => o.restExact)
        \cup T("C09_LogIsWhatWasReturned", o.accepted => (o.logsAdded = 1 /\ o.logExact))
      : i \in 1..Len(r.obs)}
OInit == l = 0 /\ viol = {} /\ cnt = [n \in Names |-> 0] /\ TLCSet(1, {}) /\ TLCSet(2, [n \in Names |-> 0])
ONext ==
    /\ l < Len(Results)
    /\ l' = l + 1
    /\ LET f == Failing(Results[l + 1]) IN
       /\ cnt' = [n \in Names |-> IF n \in f THEN cnt[n] + 1 ELSE cnt[n]]
       /\ viol' = viol \cup {<<n, l + 1>> : n \in {m \in f : cnt[m] < MaxReport}}
    /\ TLCSet(1, viol') /\ TLCSet(2, cnt')
OSpec == OInit /\ [][ONext]_ovars
Post == PrintT(<<"OBS-VERDICT", TLCGet(1)>>) /\ PrintT(<<"OBS-COUNTS", TLCGet(2)>>)
=============================================================================
