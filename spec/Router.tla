------------------------------- MODULE Router -------------------------------
(* api.NewRouter in read-only mode (C19): the middleware chain in the order     *)
(* internal/api/router.go installs it (content type, ReadOnly, then the v1 / v2 *)
(* sub-routers), over the route table EXTRACTED from the running code            *)
(* (chi.Walk over the real router; the harness marks a route `write` when its    *)
(* handler is one of the mutating handlers). A newly registered route is         *)
(* therefore part of the model automatically.                                    *)
EXTENDS Naturals, Sequences, FiniteSets, TLC, Json, SequencesExt

CONSTANTS RouteFile,   \* NDJSON route table written by `apiconf -mode routes`
          OutFile,     \* NDJSON cases for the replay
          Methods,     \* methods a client may send
          Variants     \* request decorations (override headers, query flags, ...)

Routes == ToSet(ndJsonDeserialize(RouteFile))     \* [ver, method, pattern, handler, write]
Allowed == {"GET", "HEAD", "OPTIONS"}
Patterns == {<<r.ver, r.pattern>> : r \in Routes} \cup {<<"v1", "/{ledger}/unknown">>, <<"v2", "/{ledger}/unknown">>}

Requests == {[ver |-> p[1], pattern |-> p[2], method |-> m, variant |-> v] : p \in Patterns, m \in Methods, v \in Variants}

\* what serving a request does: rejected by the read-only middleware, not routed, or handled
Serve(req, readOnly) ==
    IF readOnly /\ req.method \notin Allowed
    THEN [status |-> "rejected", write |-> FALSE]
    ELSE LET m == {r \in Routes : r.ver = req.ver /\ r.pattern = req.pattern /\ r.method = req.method} IN
         IF m = {} THEN [status |-> "unrouted", write |-> FALSE]
         ELSE [status |-> "handled", write |-> \E r \in m : r.write]

VARIABLE req
Init == req \in Requests
Next == UNCHANGED req
Spec == Init /\ [][Next]_req

\* C19 on the model: in read-only mode no request executes a write handler
NoWriteWhenReadOnly == ~Serve(req, TRUE).write
\* every mutating handler is registered under a method the middleware rejects
WriteRoutesAreRejected == \A r \in Routes : r.write => r.method \notin Allowed
\* vacuity: without read-only mode the write handlers are reachable
WritesReachable == \E r \in Routes : r.write

Emit == TLCGet("stats").generated >= 0 /\
        ndJsonSerialize(OutFile, SetToSeq({[ver |-> q.ver, pattern |-> q.pattern, method |-> q.method, variant |-> q.variant,
                                            expRO |-> Serve(q, TRUE), expRW |-> Serve(q, FALSE)] : q \in Requests}))
=============================================================================
