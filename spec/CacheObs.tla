------------------------------ MODULE CacheObs ------------------------------
(* Verdict for the cache clause of C08: every request sequence of Cache.tla was  *)
(* replayed on a real command.Compiler, sequentially and from six goroutines.    *)
EXTENDS Naturals, Sequences, FiniteSets, TLC, Json
CONSTANT ResultFile, MaxReport
Results == ndJsonDeserialize(ResultFile)
VARIABLES l, viol, cnt
ovars == <<l, viol, cnt>>
Names == {"C08_CacheSameAsFresh", "C08_CacheSameAsFreshConcurrent"}
Failing(r) == (IF r.sequentialSameAsFresh THEN {} ELSE {"C08_CacheSameAsFresh"}) \cup (IF r.concurrentSameAsFresh THEN {} ELSE {"C08_CacheSameAsFreshConcurrent"})
OInit == l = 0 /\ viol = {} /\ cnt = [n \in Names |-> 0] /\ TLCSet(1, {}) /\ TLCSet(2, [n \in Names |-> 0])
ONext ==
    /\ l < Len(Results)
    /\ l' = l + 1
    /\ LET f == Failing(Results[l + 1]) IN
       /\ cnt' = [n \in Names |-> IF n \in f THEN cnt[n] + 1 ELSE cnt[n]]
       /\ viol' = viol \cup {<<n, l + 1>> : n \in {m \in f : cnt[m] < MaxReport}}
    /\ TLCSet(1, viol') /\ TLCSet(2, cnt')
OSpec == OInit /\ [][ONext]_ovars
Post == PrintT(<<"OBS-VERDICT", TLCGet(1)>>) /\ PrintT(<<"OBS-COUNTS", TLCGet(2)>>)
=============================================================================
