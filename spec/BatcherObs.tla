----------------------------- MODULE BatcherObs -----------------------------
(* Verdict on the real batcher (C05 / C06): TLC walks the event sequences       *)
(* recorded by batchconf - batches as the store received them ("run"), store     *)
(* calls returning ("done"), acknowledgement callbacks ("ack") - and evaluates   *)
(* Batcher.tla's properties on them.                                             *)
EXTENDS Integers, Sequences, FiniteSets, TLC, Json
CONSTANT ResultFile, MaxReport
Results == ndJsonDeserialize(ResultFile)
VARIABLES l, viol, cnt
ovars == <<l, viol, cnt>>
Names == {"C05_BatcherFifo", "C05_BatchBound", "C05_NoStall", "C06_AckAfterStore", "C06_AckOnce", "Conf_BatchesAsPredicted"}

RECURSIVE Flat(_)
Flat(bs) == IF bs = <<>> THEN <<>> ELSE Head(bs) \o Flat(Tail(bs))
Runs(r) == LET e == SelectSeq(r.events, LAMBDA x : x.k = "run") IN [i \in 1..Len(e) |-> e[i].b]
InSeq(x, s) == \E i \in 1..Len(s) : s[i] = x

Failing(r) ==
    LET T(name, ok) == IF ok THEN {} ELSE {name}
        ev == r.events
        acks == {i \in 1..Len(ev) : ev[i].k = "ack"}
    IN  T("C05_NoStall", ~r.stalled)
        \cup T("C05_BatcherFifo", r.stalled \/ Flat(Runs(r)) = [i \in 1..r.n |-> i])
        \cup T("C05_BatchBound", \A i \in 1..Len(Runs(r)) : Len(Runs(r)[i]) \in 1..r.max)
        \cup T("C06_AckAfterStore", \A i \in acks : \E j \in 1..(i - 1) : ev[j].k = "done" /\ InSeq(ev[i].i, ev[j].b))
        \cup T("C06_AckOnce", /\ \A i, j \in acks : i # j => ev[i].i # ev[j].i
                              /\ r.stalled \/ {ev[i].i : i \in acks} = 1..r.n)
        \cup T("Conf_BatchesAsPredicted", r.stalled \/ Runs(r) = r.batches)

OInit == l = 0 /\ viol = {} /\ cnt = [n \in Names |-> 0] /\ TLCSet(1, {}) /\ TLCSet(2, [n \in Names |-> 0])
ONext ==
    /\ l < Len(Results)
    /\ l' = l + 1
    /\ LET f == Failing(Results[l + 1]) IN
       /\ cnt' = [n \in Names |-> IF n \in f THEN cnt[n] + 1 ELSE cnt[n]]
       /\ viol' = viol \cup {<<n, l + 1>> : n \in {m \in f : cnt[m] < MaxReport}}
    /\ TLCSet(1, viol') /\ TLCSet(2, cnt')
OSpec == OInit /\ [][ONext]_ovars
Post == PrintT(<<"OBS-VERDICT", TLCGet(1)>>) /\ PrintT(<<"OBS-COUNTS", TLCGet(2)>>)
=============================================================================
