------------------------------ MODULE EngineMC ------------------------------
(* Request palettes and model-checking configurations for Engine.tla.       *)
EXTENDS Engine

MkReq(kind, postings, mode, od, ref, ik, dry, target, tacct, mval, g) ==
    [kind |-> kind, postings |-> postings, mode |-> mode, od |-> od, ref |-> ref, ik |-> ik,
     dry |-> dry, target |-> target, tacct |-> tacct, mval |-> mval, gen |-> g]

Create(ps, mode)        == MkReq("create", ps, mode, FALSE, "", "", FALSE, -1, "", "", 0)
CreateG(ps, mode, g)    == MkReq("create", ps, mode, FALSE, "", "", FALSE, -1, "", "", g)
CreateIkDry(ps, ik)     == MkReq("create", ps, "lit", FALSE, "", ik, TRUE, -1, "", "", 0)
CreateRefDry(ps, ref)   == MkReq("create", ps, "lit", FALSE, ref, "", TRUE, -1, "", "", 0)
\* a script that also writes account metadata (set_account_meta)
CreateIkMeta(ps, ik, g) == MkReq("create", ps, "lit", FALSE, "", ik, FALSE, -1, "", "am", g)
RevertG(t, g)           == MkReq("revert", <<>>, "lit", FALSE, "", "", FALSE, t, "", "", g)
SetAcctG(a, v, g)       == MkReq("setmeta", <<>>, "lit", FALSE, "", "", FALSE, -1, a, v, g)
CreateRef(ps, ref)      == MkReq("create", ps, "lit", FALSE, ref, "", FALSE, -1, "", "", 0)
CreateIk(ps, ik, g)     == MkReq("create", ps, "lit", FALSE, "", ik, FALSE, -1, "", "", g)
CreateDry(ps)           == MkReq("create", ps, "lit", FALSE, "", "", TRUE, -1, "", "", 0)
CreateOd(ps)            == MkReq("create", ps, "lit", TRUE, "", "", FALSE, -1, "", "", 0)
Revert(t, force)        == MkReq("revert", <<>>, "lit", force, "", "", FALSE, t, "", "", 0)
RevertIk(t, ik, g)      == MkReq("revert", <<>>, "lit", FALSE, "", ik, FALSE, t, "", "", g)
SetAcct(a, v)           == MkReq("setmeta", <<>>, "lit", FALSE, "", "", FALSE, -1, a, v, 0)
SetAcctIk(a, v, ik, g)  == MkReq("setmeta", <<>>, "lit", FALSE, "", ik, FALSE, -1, a, v, g)
SetAcctDry(a, v)        == MkReq("setmeta", <<>>, "lit", FALSE, "", "", TRUE, -1, a, v, 0)
RevertDry(t, force)     == MkReq("revert", <<>>, "lit", force, "", "", TRUE, t, "", "", 0)
DelAcctDry(a)           == MkReq("delmeta", <<>>, "lit", FALSE, "", "", TRUE, -1, a, "", 0)
SetTxDry(t)             == MkReq("setmeta", <<>>, "lit", FALSE, "", "", TRUE, t, "", "x", 0)
DelTxDry(t)             == MkReq("delmeta", <<>>, "lit", FALSE, "", "", TRUE, t, "", "", 0)
CreateMetaDry(ps)       == MkReq("create", ps, "lit", FALSE, "", "", TRUE, -1, "", "am", 0)
DelAcct(a)              == MkReq("delmeta", <<>>, "lit", FALSE, "", "", FALSE, -1, a, "", 0)
SetTx(t)                == MkReq("setmeta", <<>>, "lit", FALSE, "", "", FALSE, t, "", "x", 0)
DelTx(t)                == MkReq("delmeta", <<>>, "lit", FALSE, "", "", FALSE, t, "", "", 0)

AB == <<P("A", "B", 1)>>
AC == <<P("A", "C", 2)>>
WB == <<P("world", "B", 1)>>
WC == <<P("world", "C", 1)>>
PB == <<P("$payer", "B", 2)>>
A2 == <<P("A", "B", 4)>>
ABC == <<P("A", "B", 1), P("B", "C", 1)>>
\* two postings of the same amount in two assets
TWO == <<P("world", "B", 1), P("world", "BE", 1)>>
\* a shape with a self-transfer, a zero amount and a repeated pair
ODD == <<P("world", "A", 1), P("A", "A", 1), P("A", "B", 0), P("A", "B", 1)>>

\* C02: racing for the 3 units on A, source named in every way a script can; revert of the funding tx
PalFunds == <<Create(AB, "lit"), Create(AC, "var"), Create(AC, "alias"), Create(PB, "meta"), Create(AC, "allot"), Create(AC, "max"), Create(AC, "seq"),
              Create(AB, "bal"), CreateOd(A2), Revert(0, FALSE), SetAcct("M", "C")>>
\* C02: one script text, every source a variable ("wvar"), bound once to @world (a variable bound to @world has no
\* overdraft allowance, so that request is refused) and once to A, racing with plain spends of A: what one request
\* resolves must not change what the next one locks
WB0 == <<P("world", "C", 2), P("B", "C", 0)>>
AB0 == <<P("A", "C", 2), P("B", "C", 0)>>
AM0 == <<P("A", "C", 2), P("M", "C", 0)>>
PalCache == <<Create(WB0, "wvar"), Create(AB0, "wvar"), Create(AM0, "wvar"), Create(AC, "lit")>>
\* C11: one reference, disjoint sources, competitor succeeding or failing
\* ... and a revert of the transaction that took the reference (a reverted transaction keeps its reference)
\* ... and a reference with white space around it, used twice
PalRef == <<CreateRef(WB, "r1"), CreateRef(WC, "r1"), CreateRef(A2, "r1"), CreateRef(AB, "r2"), Revert(1, FALSE),
            CreateRef(WB, " r3 "), CreateRef(WC, " r3 ")>>
\* C07: duplicates of one key, of each kind, and retries after a restart
PalIk == <<CreateIk(WB, "k1", 0), CreateIk(WB, "k1", 1), CreateIkDry(WB, "k1"), CreateIkMeta(WC, "k4", 0), CreateIkMeta(WC, "k4", 1), SetAcctIk("B", "v", "k2", 0), SetAcctIk("B", "v", "k2", 1),
           RevertIk(0, "k3", 0), RevertIk(0, "k3", 1), RevertIk(1, "k3", 1),
           \* one key used by writes of different kinds
           SetAcctIk("B", "v", "k1", 0), RevertIk(0, "k2", 1)>>
\* C07: retries of a persisted original while the store fails a lookup of the key (used with MaxReadFail = 1)
PalIkRead == <<CreateIk(WB, "k1", 0), CreateIk(WB, "k1", 0), CreateIk(WB, "k1", 1), SetAcctIk("B", "v", "k2", 0), SetAcctIk("B", "v", "k2", 1), RevertIk(0, "k3", 0)>>
\* C11 / C10: the same while the store fails a lookup of the reference or of the transaction to revert (MaxReadFail = 1)
PalRefRead == <<CreateRef(WB, "r1"), CreateRef(WC, "r1"), CreateRef(AB, "r2"), Revert(0, FALSE), Revert(1, FALSE)>>
\* C10: racing reverts, forced and not, racing with a spend of the funds
\* ... one of the racing reverts carrying an idempotency key
PalRevert == <<Revert(0, FALSE), Revert(0, TRUE), Create(AB, "lit"), Create(ABC, "lit"), Create(ODD, "lit"), Create(TWO, "lit"), Revert(1, FALSE), Revert(1, TRUE),
               RevertIk(0, "k5", 0)>>
\* C05 / C06 / C16: every kind of writer
PalKinds == <<Create(WB, "lit"), Create(AB, "lit"), Revert(0, FALSE), SetAcct("B", "v"), DelAcct("B"), SetTx(0), DelTx(0), SetTx(7), CreateOd(A2)>>
\* C05 / C06: writers before and after a restart
PalRestart == <<Create(WB, "lit"), Create(AB, "lit"), Revert(0, FALSE), SetAcct("B", "v"),
                CreateG(WB, "lit", 1), CreateG(AB, "lit", 1), SetAcctG("B", "v", 1), RevertG(0, 1)>>
\* C05: a ledger whose history holds no transaction yet (used with SeedTx = FALSE): metadata writes, a restart, then writes
PalMetaOnly == <<SetAcct("B", "v"), DelAcct("B"), SetAcct("M", "C"), SetAcctG("B", "v", 1), CreateG(WB, "lit", 1), Create(WB, "lit")>>
\* C14: previews of each kind among real writes
PalDry == <<CreateDry(WB), CreateDry(A2), CreateDry(AB), SetAcctDry("B", "v"), Create(WB, "lit"), Create(AB, "lit"),
            CreateIkDry(WB, "k1"), CreateIk(WB, "k1", 0), CreateRefDry(WC, "r9"), CreateRef(WC, "r9")>>
\* C14 / C16: previews of the other kinds of write (revert, metadata on transactions and accounts, scripts writing account metadata)
PalDry2 == <<RevertDry(0, FALSE), RevertDry(0, TRUE), SetTxDry(0), DelTxDry(0), DelAcctDry("B"), CreateMetaDry(WC),
             Revert(0, FALSE), SetTx(0), Create(AB, "lit")>>
\* four concurrent requests (thorough tier): the first seven entries of each palette
First7(p) == SubSeq(p, 1, IF Len(p) < 7 THEN Len(p) ELSE 7)
PalFunds4 == First7(PalFunds)
PalRef4 == First7(PalRef)
PalIk4 == First7(PalIk)
PalRevert4 == First7(PalRevert)
PalKinds4 == First7(PalKinds)
PalRestart4 == First7(PalRestart)
PalDry4 == First7(PalDry)
PalDry24 == First7(PalDry2)
PalMetaOnly4 == First7(PalMetaOnly)
PalCache4 == First7(PalCache)
PalIkRead4 == First7(PalIkRead)
PalRefRead4 == First7(PalRefRead)
=============================================================================
