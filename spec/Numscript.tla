------------------------------ MODULE Numscript ------------------------------
(* Source-level meaning of Numscript (C01 C03 C08 C12): what a program's text  *)
(* defines, independently of the compiler scheme (BUMP-based stack shuffling)   *)
(* and of the VM. A program is an abstract syntax tree; Exec gives its outcome  *)
(* class, postings, transaction metadata and account metadata for a store.      *)
(*                                                                              *)
(* Fundings are sequences of parts [acct, amt], drained front to back.          *)
(* Amounts marked `kept` are withheld from the END of a funding (the sources    *)
(* written last are spared first) and returned to their accounts.               *)
EXTENDS Integers, Sequences, FiniteSets, TLC

\* ------------------------------------------------------------------ helpers
MinI(a, b) == IF a < b THEN a ELSE b
RECURSIVE SumSeq(_)
SumSeq(s) == IF s = <<>> THEN 0 ELSE Head(s) + SumSeq(Tail(s))
Part(a, n) == [acct |-> a, amt |-> n]

\* drop zero parts, merge adjacent parts of the same account
RECURSIVE Norm(_)
Norm(f) ==
    IF f = <<>> THEN <<>>
    ELSE LET h == Head(f) r == Norm(Tail(f)) IN
         IF h.amt = 0 THEN r
         ELSE IF r # <<>> /\ Head(r).acct = h.acct THEN <<Part(h.acct, h.amt + Head(r).amt)>> \o Tail(r)
         ELSE <<h>> \o r
Cat(f, g) == Norm(f \o g)
RECURSIVE Total(_)
Total(f) == IF f = <<>> THEN 0 ELSE Head(f).amt + Total(Tail(f))
RECURSIVE Rev(_)
Rev(f) == IF f = <<>> THEN <<>> ELSE Append(Rev(Tail(f)), Head(f))

\* take n units from the front (n <= Total(f))
RECURSIVE TakeFront(_, _)
TakeFront(f, n) ==
    IF n <= 0 \/ f = <<>> THEN [taken |-> <<>>, rest |-> f]
    ELSE LET h == Head(f) IN
         IF h.amt > n THEN [taken |-> <<Part(h.acct, n)>>, rest |-> <<Part(h.acct, h.amt - n)>> \o Tail(f)]
         ELSE LET r == TakeFront(Tail(f), n - h.amt) IN [taken |-> <<h>> \o r.taken, rest |-> r.rest]
\* take n units from the back
TakeBack(f, n) == LET r == TakeFront(Rev(f), n) IN [taken |-> Rev(r.taken), rest |-> Rev(r.rest)]

RECURSIVE Repay(_, _)
Repay(bal, f) ==
    IF f = <<>> THEN bal
    ELSE IF Head(f).acct = "world" THEN Repay(bal, Tail(f))
    ELSE Repay([bal EXCEPT ![Head(f).acct] = @ + Head(f).amt], Tail(f))

\* ------------------------------------------------------------------ abstract syntax
\* sources:   [t |-> "acct", a, od]   od = -1 none, -2 unbounded, n >= 0 "allowing overdraft up to n"
\*            [t |-> "max", cap, ss = <<s>>]        [t |-> "seq", ss]
\* value-aware source of a send: a source, or [t |-> "allot", ports, ss]
\* destinations: [t |-> "acct", a] [t |-> "kept"] [t |-> "seq", caps, ds (Len = Len(caps)+1, last = remaining)]
\*               [t |-> "allot", ports, ds]
\* portions: [n, d] ; remaining = [n |-> -1, d |-> 1]
SAcct(a, od)   == [t |-> "acct", a |-> a, od |-> od, cap |-> 0, ss |-> <<>>, ports |-> <<>>]
SMax(cap, s)   == [t |-> "max", a |-> "", od |-> -1, cap |-> cap, ss |-> <<s>>, ports |-> <<>>]
SSeq(ss)       == [t |-> "seq", a |-> "", od |-> -1, cap |-> 0, ss |-> ss, ports |-> <<>>]
SAllot(ps, ss) == [t |-> "allot", a |-> "", od |-> -1, cap |-> 0, ss |-> ss, ports |-> ps]
DAcct(a)       == [t |-> "acct", a |-> a, caps |-> <<>>, ports |-> <<>>, ds |-> <<>>]
DKept          == [t |-> "kept", a |-> "", caps |-> <<>>, ports |-> <<>>, ds |-> <<>>]
DSeq(caps, ds) == [t |-> "seq", a |-> "", caps |-> caps, ports |-> <<>>, ds |-> ds]
DAllot(ps, ds) == [t |-> "allot", a |-> "", caps |-> <<>>, ports |-> ps, ds |-> ds]
Por(n, d)      == [n |-> n, d |-> d]
Remaining      == [n |-> -1, d |-> 1]
\* a send: amt >= 0, or -1 for [ASSET *]
Send(amt, src, dst) == [amt |-> amt, src |-> src, dst |-> dst]

\* ------------------------------------------------------------------ the same program at another scale
\* every amount of a program (send amounts, caps, overdraft bounds) and every balance multiplied by k
RECURSIVE ScaleSrc(_, _)
ScaleSrc(s, k) == [s EXCEPT !.od = IF @ >= 0 THEN @ * k ELSE @, !.cap = @ * k,
                            !.ss = [i \in 1..Len(s.ss) |-> ScaleSrc(s.ss[i], k)]]
RECURSIVE ScaleDst(_, _)
ScaleDst(d, k) == [d EXCEPT !.caps = [i \in 1..Len(d.caps) |-> d.caps[i] * k],
                            !.ds = [i \in 1..Len(d.ds) |-> ScaleDst(d.ds[i], k)]]
ScaleSends(ss, k) == [i \in 1..Len(ss) |-> [amt |-> IF ss[i].amt >= 0 THEN ss[i].amt * k ELSE ss[i].amt,
                                            src |-> ScaleSrc(ss[i].src, k), dst |-> ScaleDst(ss[i].dst, k)]]
ScaleBal(bal, k) == [a \in DOMAIN bal |-> bal[a] * k]
RECURSIVE SrcHasPorts(_)
SrcHasPorts(s) == s.t = "allot" \/ \E i \in 1..Len(s.ss) : SrcHasPorts(s.ss[i])
RECURSIVE DstHasPorts(_)
DstHasPorts(d) == d.t = "allot" \/ \E i \in 1..Len(d.ds) : DstHasPorts(d.ds[i])
HasPorts(ss) == \E i \in 1..Len(ss) : SrcHasPorts(ss[i].src) \/ DstHasPorts(ss[i].dst)

\* ------------------------------------------------------------------ static rules (the program is refused)
RECURSIVE Fallback(_)
Fallback(s) ==
    CASE s.t = "acct" -> IF s.a = "world" \/ s.od = -2 THEN s.a ELSE "none"
      [] s.t = "max"  -> "none"
      [] s.t = "seq"  -> Fallback(s.ss[Len(s.ss)])
      [] OTHER -> "none"

RECURSIVE Emptied(_)
Emptied(s) ==
    CASE s.t = "acct" -> {s.a}
      [] s.t = "max"  -> {}
      [] s.t = "seq"  -> UNION {Emptied(s.ss[i]) : i \in 1..Len(s.ss)}
      [] OTHER -> {}

RECURSIVE SrcOK(_, _)
\* all: the source is evaluated for [ASSET *]
SrcOK(s, all) ==
    CASE s.t = "acct" -> /\ ~(s.a = "world" /\ s.od # -1)
                         /\ ~(all /\ Fallback(s) # "none")
      [] s.t = "max"  -> SrcOK(s.ss[1], FALSE)
      [] s.t = "seq"  -> /\ \A i \in 1..Len(s.ss) : SrcOK(s.ss[i], all)
                         /\ \A i \in 1..(Len(s.ss) - 1) : Fallback(s.ss[i]) = "none"
                         /\ \A i, j \in 1..Len(s.ss) : i < j => Emptied(s.ss[i]) \cap Emptied(s.ss[j]) = {}
      [] OTHER -> FALSE

\* a portion given by a variable is written with a negative denominator: Por(1, -3) is a variable whose value is 1/3.
\* The compiler knows only the literal portions; the machine knows them all.
AbsD(p) == IF p.d < 0 THEN 0 - p.d ELSE p.d
IsVarPortion(p) == p.d < 0
Known(ps) == {i \in 1..Len(ps) : ps[i].n >= 0}
\* sum of the known portions as a fraction over the common denominator
RECURSIVE Lcm2(_, _, _)
Lcm2(a, b, k) == IF (a * k) % b = 0 THEN a * k ELSE Lcm2(a, b, k + 1)
RECURSIVE DenOf(_)
DenOf(ps) == IF ps = <<>> THEN 1 ELSE Lcm2(AbsD(Head(ps)), DenOf(Tail(ps)), 1)
\* numerator of the sum of the specific portions (literal and variable) over the common denominator
KnownNum(ps) == LET D == DenOf(ps) IN SumSeq([i \in 1..Len(ps) |-> IF ps[i].n >= 0 THEN ps[i].n * (D \div AbsD(ps[i])) ELSE 0])
\* ... of the literal ones only: what the compiler can add up
LiteralNum(ps) == LET D == DenOf(ps) IN SumSeq([i \in 1..Len(ps) |-> IF ps[i].n >= 0 /\ ~IsVarPortion(ps[i]) THEN ps[i].n * (D \div AbsD(ps[i])) ELSE 0])
PortionsOK(ps) ==
    LET D == DenOf(ps) num == LiteralNum(ps) nrem == Cardinality({i \in 1..Len(ps) : ps[i].n < 0})
        hasVar == \E i \in 1..Len(ps) : ps[i].n >= 0 /\ IsVarPortion(ps[i]) IN
    /\ nrem <= 1
    /\ num <= D
    /\ (num < D) = (nrem = 1)         \* literal portions short of 100% need `remaining` - whatever variables are there
    /\ hasVar => num < D

RECURSIVE DstOK(_)
DstOK(d) ==
    CASE d.t = "acct" -> TRUE
      [] d.t = "kept" -> TRUE
      [] d.t = "seq"  -> \A i \in 1..Len(d.ds) : DstOK(d.ds[i])
      [] d.t = "allot" -> PortionsOK(d.ports) /\ \A i \in 1..Len(d.ds) : DstOK(d.ds[i])
      [] OTHER -> FALSE

SendOK(sd) ==
    /\ DstOK(sd.dst)
    /\ IF sd.src.t = "allot"
       THEN /\ sd.amt >= 0
            /\ PortionsOK(sd.src.ports)
            /\ \A i \in 1..Len(sd.src.ss) : SrcOK(sd.src.ss[i], FALSE)
       ELSE SrcOK(sd.src, sd.amt < 0)

\* ------------------------------------------------------------------ evaluation
\* portions -> shares: floor each share, the leftover units go one each to the earliest entries
Shares(total, ps) ==
    LET D == DenOf(ps)
        num == KnownNum(ps)
        fr(i) == IF ps[i].n >= 0 THEN ps[i].n * (D \div AbsD(ps[i])) ELSE D - num
        fl == [i \in 1..Len(ps) |-> (total * fr(i)) \div D]
        left == total - SumSeq(fl)
    IN [i \in 1..Len(ps) |-> IF i <= left THEN fl[i] + 1 ELSE fl[i]]

RECURSIVE EvalSrc(_, _)
\* -> [f, bal]  everything the source can provide, taken out of the balances
EvalSrc(s, bal) ==
    CASE s.t = "acct" ->
            LET odv == IF s.od >= 0 THEN s.od ELSE 0
                avail == bal[s.a] + odv
            IN IF avail > 0 THEN [f |-> <<Part(s.a, avail)>>, bal |-> [bal EXCEPT ![s.a] = 0 - odv]]
               ELSE [f |-> <<>>, bal |-> bal]
      [] s.t = "max" ->
            LET r == EvalSrc(s.ss[1], bal)
                tot == Total(r.f)
                tk == TakeFront(r.f, MinI(s.cap, tot))
                b1 == Repay(r.bal, tk.rest)
                fb == Fallback(s.ss[1])
                missing == IF s.cap > tot THEN s.cap - tot ELSE 0
            IN IF fb # "none"
               THEN [f |-> Cat(tk.taken, <<Part(fb, missing)>>), bal |-> [b1 EXCEPT ![fb] = @ - missing]]
               ELSE [f |-> tk.taken, bal |-> b1]
      [] s.t = "seq" ->
            IF Len(s.ss) = 0 THEN [f |-> <<>>, bal |-> bal]
            ELSE LET r1 == EvalSrc(s.ss[1], bal)
                     r2 == EvalSrc(SSeq(Tail(s.ss)), r1.bal)
                 IN [f |-> Cat(r1.f, r2.f), bal |-> r2.bal]

\* take `amt` out of what source s provides (the rest goes back); -> [ok, f, bal]
TakeFrom(s, amt, bal) ==
    LET r == EvalSrc(s, bal)
        tot == Total(r.f)
        fb == Fallback(s)
    IN IF fb = "none"
       THEN IF tot < amt THEN [ok |-> FALSE, f |-> <<>>, bal |-> bal]
            ELSE LET tk == TakeFront(r.f, amt) IN [ok |-> TRUE, f |-> tk.taken, bal |-> Repay(r.bal, tk.rest)]
       ELSE LET tk == TakeFront(r.f, MinI(amt, tot))
                b1 == Repay(r.bal, tk.rest)
                missing == IF amt > tot THEN amt - tot ELSE 0
            IN [ok |-> TRUE, f |-> Cat(tk.taken, <<Part(fb, missing)>>), bal |-> [b1 EXCEPT ![fb] = @ - missing]]

RECURSIVE TakeFromAllot(_, _, _, _)
\* portioned source: each source provides its share, in written order
TakeFromAllot(ss, shares, i, bal) ==
    IF i > Len(ss) THEN [ok |-> TRUE, f |-> <<>>, bal |-> bal]
    ELSE LET r == TakeFrom(ss[i], shares[i], bal) IN
         IF ~r.ok THEN [ok |-> FALSE, f |-> <<>>, bal |-> bal]
         ELSE LET q == TakeFromAllot(ss, shares, i + 1, r.bal) IN
              IF ~q.ok THEN q ELSE [ok |-> TRUE, f |-> Cat(r.f, q.f), bal |-> q.bal]

PostingsTo(F, a) == [i \in 1..Len(F) |-> [src |-> F[i].acct, dst |-> a, amt |-> F[i].amt]]
Credit(bal, a, n) == IF a = "world" THEN bal ELSE [bal EXCEPT ![a] = @ + n]

RECURSIVE Fill(_, _, _)
RECURSIVE FillSeq(_, _, _, _, _, _)
RECURSIVE FillAllot(_, _, _, _, _, _)
\* -> [ok, left (funding not delivered: kept), posts, bal]
Fill(d, F, bal) ==
    CASE d.t = "acct" -> [ok |-> TRUE, left |-> <<>>, posts |-> PostingsTo(F, d.a), bal |-> Credit(bal, d.a, Total(F))]
      [] d.t = "kept" -> [ok |-> TRUE, left |-> F, posts |-> <<>>, bal |-> bal]
      [] d.t = "seq"  -> FillSeq(d, 1, F, 0, <<>>, bal)
      [] d.t = "allot" -> FillAllot(d, Shares(Total(F), d.ports), 1, F, <<>>, bal)

FillSeq(d, i, F, K, posts, bal) ==
    IF i <= Len(d.caps)
    THEN LET tk == TakeFront(F, MinI(d.caps[i], Total(F)))
             r == Fill(d.ds[i], tk.taken, bal)
         IN IF ~r.ok THEN r
            ELSE FillSeq(d, i + 1, Cat(r.left, tk.rest), K + Total(r.left), posts \o r.posts, r.bal)
    ELSE IF K > Total(F) THEN [ok |-> FALSE, left |-> <<>>, posts |-> <<>>, bal |-> bal]
         ELSE LET kb == TakeBack(F, K)
                  r == Fill(d.ds[Len(d.ds)], kb.rest, bal)
              IN IF ~r.ok THEN r
                 ELSE [ok |-> TRUE, left |-> Cat(r.left, kb.taken), posts |-> posts \o r.posts, bal |-> r.bal]

FillAllot(d, shares, i, F, posts, bal) ==
    IF i > Len(d.ds) THEN [ok |-> TRUE, left |-> F, posts |-> posts, bal |-> bal]
    ELSE LET tk == TakeFront(F, shares[i])
             r == Fill(d.ds[i], tk.taken, bal)
         IN IF ~r.ok THEN r
            ELSE FillAllot(d, shares, i + 1, Cat(r.left, tk.rest), posts \o r.posts, r.bal)

\* one send statement: -> [class, posts, bal, moved (what left the sources), kept]
ExecSend(sd, bal) ==
    LET src ==
          IF sd.src.t = "allot" THEN TakeFromAllot(sd.src.ss, Shares(sd.amt, sd.src.ports), 1, bal)
          ELSE IF sd.amt < 0 THEN LET r == EvalSrc(sd.src, bal) IN [ok |-> TRUE, f |-> r.f, bal |-> r.bal]
          ELSE TakeFrom(sd.src, sd.amt, bal)
    IN IF ~src.ok THEN [class |-> "insufficient", posts |-> <<>>, bal |-> bal, provided |-> 0, kept |-> 0]
       ELSE LET r == Fill(sd.dst, src.f, src.bal) IN
            IF ~r.ok THEN [class |-> "insufficient", posts |-> <<>>, bal |-> bal, provided |-> 0, kept |-> 0]
            ELSE [class |-> "ok", posts |-> r.posts, bal |-> Repay(r.bal, r.left),
                  provided |-> Total(src.f), kept |-> Total(r.left)]

RECURSIVE ExecSends(_, _)
\* a program of sends: the first failing statement rejects the whole transaction
ExecSends(sends, bal) ==
    IF sends = <<>> THEN [class |-> "ok", posts |-> <<>>, bal |-> bal]
    ELSE LET r == ExecSend(Head(sends), bal) IN
         IF r.class # "ok" THEN [class |-> r.class, posts |-> <<>>, bal |-> bal]
         ELSE LET q == ExecSends(Tail(sends), r.bal) IN
              IF q.class # "ok" THEN [class |-> q.class, posts |-> <<>>, bal |-> bal]
              ELSE [class |-> "ok", posts |-> r.posts \o q.posts, bal |-> q.bal]

\* the outcome of a program of sends: refused statically, rejected, or accepted with postings
\* (postings in canonical form: no zero amount, adjacent identical (src,dst) merged, self-transfers left alone)
RECURSIVE NormPosts(_)
NormPosts(ps) ==
    IF ps = <<>> THEN <<>>
    ELSE LET h == Head(ps) r == NormPosts(Tail(ps)) IN
         IF h.amt = 0 THEN r
         ELSE IF r # <<>> /\ Head(r).src = h.src /\ Head(r).dst = h.dst /\ h.src # h.dst
              THEN <<[h EXCEPT !.amt = h.amt + Head(r).amt]>> \o Tail(r)
         ELSE <<h>> \o r

Outcome(sends, bal) ==
    IF \E i \in 1..Len(sends) : ~SendOK(sends[i]) THEN [class |-> "compile-error", posts |-> <<>>]
    ELSE LET r == ExecSends(sends, bal) IN
         IF r.class = "ok" /\ NormPosts(r.posts) = <<>> THEN [class |-> "no-postings", posts |-> <<>>]
         ELSE [class |-> r.class, posts |-> NormPosts(r.posts)]

\* ------------------------------------------------------------------ laws (C01, C03) over (program, balances, postings)
\* overdraft the script grants an account: -2 unbounded, else the largest bound
RECURSIVE GrantSrc(_, _)
GrantSrc(s, a) ==
    CASE s.t = "acct" -> IF s.a # a THEN -1 ELSE s.od
      [] OTHER -> LET g == {GrantSrc(s.ss[i], a) : i \in 1..Len(s.ss)} IN
                  IF -2 \in g THEN -2 ELSE IF g = {} THEN -1 ELSE CHOOSE m \in g : \A x \in g : x <= m
Grant(sends, a) ==
    LET g == {GrantSrc(sends[i].src, a) : i \in 1..Len(sends)} IN
    IF -2 \in g THEN -2 ELSE IF g = {} THEN -1 ELSE CHOOSE m \in g : \A x \in g : x <= m

RECURSIVE NeverOverdrawn(_, _, _)
\* C01: replaying the postings in order never takes a non-world account below -(granted overdraft)
NeverOverdrawn(posts, bal0, sends) ==
    IF posts = <<>> THEN TRUE
    ELSE LET p == Head(posts)
             \* an account the balance table does not mention owns nothing
             bal == [a \in DOMAIN bal0 \cup {p.src, p.dst} |-> IF a \in DOMAIN bal0 THEN bal0[a] ELSE 0]
             b1 == IF p.src = "world" THEN bal ELSE [bal EXCEPT ![p.src] = @ - p.amt]
             b2 == IF p.dst = "world" THEN b1 ELSE [b1 EXCEPT ![p.dst] = @ + p.amt]
             g == Grant(sends, p.src)
             floor == IF g >= 0 THEN 0 - g ELSE 0
         IN /\ (p.src = "world" \/ g = -2 \/ p.amt = 0 \/ b1[p.src] >= MinI(floor, bal[p.src]))
            /\ NeverOverdrawn(Tail(posts), b2, sends)

NoNegativePosting(posts) == \A i \in 1..Len(posts) : posts[i].amt >= 0
=============================================================================
