----------------------------- MODULE LockTrace -----------------------------
(* Conformance of recorded executions of the real DefaultLocker with Lock.tla: *)
(* every recorded event must be the corresponding action of the specification  *)
(* and the projected lock tables must equal the specification's variables.      *)
(* Several executions are concatenated; a "reset" line starts a new one.        *)
EXTENDS Lock, Json, SequencesExt

CONSTANT TraceFile
Trace == ndJsonDeserialize(TraceFile)

VARIABLE l    \* number of consumed lines
tvars == <<vars, l>>

Has(rec, f) == f \in DOMAIN rec

ConvAcc(j) == [r \in Req |-> IF r \in DOMAIN j
                             THEN [read |-> ToSet(j[r].read), write |-> ToSet(j[r].write)]
                             ELSE [read |-> {}, write |-> {}]]

TraceInit ==
    /\ l = 0
    /\ acc = [r \in Req |-> [read |-> {}, write |-> {}]]
    /\ rl = [a \in Acct |-> 0] /\ wl = {} /\ queue = <<>>
    /\ st = [r \in Req |-> "released"]
    /\ cancelled = [r \in Req |-> FALSE]

E == Trace[l + 1]
IsEvent(name) == l < Len(Trace) /\ E.ev = name /\ l' = l + 1

\* the projected state recorded with the event equals the specification's
Bound ==
    /\ Has(E, "rl") => \A a \in DOMAIN E.rl : rl'[a] = E.rl[a]
    /\ Has(E, "wl") => wl' = ToSet(E.wl)
    /\ Has(E, "queue") => queue' = E.queue
    /\ Has(E, "holders") => ToSet(E.holders) = {r \in Req : st'[r] \in {"granted", "holding"}}

NewlyGranted == {x \in Req : st[x] # "granted" /\ st'[x] = "granted"}

TraceReset ==
    /\ IsEvent("reset")
    /\ acc' = ConvAcc(E.acc)
    /\ rl' = [a \in Acct |-> 0] /\ wl' = {} /\ queue' = <<>>
    /\ st' = [r \in Req |-> IF r \in DOMAIN E.acc THEN "idle" ELSE "released"]
    /\ cancelled' = [r \in Req |-> FALSE]

TraceRequest ==
    /\ IsEvent("Request") /\ Request(E.r)
    /\ (E.out = "acquired") = (st'[E.r] = "holding")
    /\ Bound
TraceRelease ==
    /\ IsEvent("Release") /\ Release(E.r)
    /\ ToSet(E.granted) = NewlyGranted
    /\ Bound
TraceObserve == IsEvent("Observe") /\ Observe(E.r) /\ Bound
TraceCancel ==
    /\ IsEvent("Cancel")
    \* a cancellation arriving after the call completed is not an action of the lock manager
    /\ IF st[E.r] \in {"idle", "waiting", "granted"} /\ ~cancelled[E.r]
       THEN cancelled' = [cancelled EXCEPT ![E.r] = TRUE] /\ UNCHANGED <<acc, rl, wl, queue, st>>
       ELSE UNCHANGED vars
    /\ Bound
TraceCancelSeen ==
    /\ IsEvent("CancelSeen") /\ CancelSeen(E.r)
    /\ ToSet(E.granted) = NewlyGranted
    /\ Bound
TraceReturned == IsEvent("Returned") /\ UNCHANGED vars /\
    (E.out = "ok") = (st[E.r] = "holding")
TraceFinal == IsEvent("Final") /\ UNCHANGED vars /\ Bound
Finished == l = Len(Trace) /\ UNCHANGED tvars

TraceNext == TraceReset \/ TraceRequest \/ TraceRelease \/ TraceObserve \/ TraceCancel
             \/ TraceCancelSeen \/ TraceReturned \/ TraceFinal \/ Finished

TraceSpec == TraceInit /\ [][TraceNext]_tvars
=============================================================================
