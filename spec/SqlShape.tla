------------------------------ MODULE SqlShape ------------------------------
(* Filter values are data, never SQL (C20).                                      *)
(*  (a) the lexical structure of a PostgreSQL statement as a character automaton: *)
(*      code, 'literal' ('' doubling), E'literal' (backslash escapes),             *)
(*      "identifier", -- line comment, nested block comments, $tag$ quoting;       *)
(*      Skeleton(sql) = the statement with the content of every literal,           *)
(*      identifier and comment erased;                                             *)
(*  (b) the value space: every string up to MaxLen over an alphabet of characters  *)
(*      that matter to SQL, and Harmless(v): the same shape (same ':' segments,    *)
(*      same length) made of letters;                                              *)
(*  (c) the property: Skeleton(sql for v) = Skeleton(sql for Harmless(v)), or the   *)
(*      request is rejected.                                                        *)
(* Characters are code points (integers); TLC evaluates Skeleton on the statements  *)
(* recorded from the real store.                                                    *)
EXTENDS Integers, Sequences, FiniteSets, TLC, Json, SequencesExt

CONSTANTS MaxLen, OutFile

\* code points
SQ == 39     \* '
DQ == 34     \* "
BS == 92     \* backslash
DASH == 45
SLASH == 47
STAR == 42
DOLLAR == 36
NL == 10
COLON == 58
LETTER_A == 97
Alphabet == <<LETTER_A, COLON, SQ, DQ, BS, DASH, 59, 63, STAR, SLASH, DOLLAR, 32, 233, 48, 40, 41>>   \* a : ' " \ - ; ? * / $ space é 0 ( )

RECURSIVE Strings(_)
Strings(n) == IF n = 0 THEN {<<>>} ELSE LET s == Strings(n - 1) IN s \cup {Append(x, Alphabet[i]) : x \in {y \in s : Len(y) = n - 1}, i \in 1..Len(Alphabet)}
\* digits stay digits (a number is as harmless as a letter, and numeric slots only take numbers)
Harmless(v) == [i \in 1..Len(v) |-> IF v[i] = COLON \/ v[i] \in 48..57 THEN v[i] ELSE LETTER_A]

IsTagChar(ch) == (ch >= 97 /\ ch <= 122) \/ (ch >= 65 /\ ch <= 90) \/ ch = 95 \/ (ch >= 48 /\ ch <= 57)

\* ---- the automaton ---------------------------------------------------------------
\* st: "code" | "sq" | "esq" | "dq" | "lc" | "bc" | "dol" ; depth: block comment nesting ;
\* tag / cur: opening $tag$ and the candidate closing tag being read ; out: skeleton so far
RECURSIVE Lex(_, _, _, _, _, _, _)
Lex(s, i, st, depth, tag, cur, out) ==
    IF i > Len(s) THEN Append(out, IF st = "code" THEN -1 ELSE -2)      \* -2: the statement ends inside a literal / comment
    ELSE LET ch == s[i]
             nx == IF i < Len(s) THEN s[i + 1] ELSE -1
             prev == IF i > 1 THEN s[i - 1] ELSE -1
         IN
         CASE st = "code" ->
                IF ch = SQ THEN
                    IF prev \in {69, 101} /\ (i < 3 \/ ~IsTagChar(s[i - 2]))    \* E'...'
                    THEN Lex(s, i + 1, "esq", 0, <<>>, <<>>, Append(out, -10))
                    ELSE Lex(s, i + 1, "sq", 0, <<>>, <<>>, Append(out, -10))
                ELSE IF ch = DQ THEN Lex(s, i + 1, "dq", 0, <<>>, <<>>, Append(out, -11))
                ELSE IF ch = DASH /\ nx = DASH THEN Lex(s, i + 2, "lc", 0, <<>>, <<>>, Append(out, -12))
                ELSE IF ch = SLASH /\ nx = STAR THEN Lex(s, i + 2, "bc", 1, <<>>, <<>>, Append(out, -13))
                ELSE IF ch = DOLLAR /\ ~IsTagChar(prev) THEN Lex(s, i + 1, "dolopen", 0, <<>>, <<>>, out)
                ELSE Lex(s, i + 1, "code", 0, <<>>, <<>>, Append(out, ch))
           [] st = "dolopen" ->      \* reading $tag
                IF ch = DOLLAR THEN Lex(s, i + 1, "dol", 0, tag, <<>>, Append(out, -14))
                ELSE IF IsTagChar(ch) /\ ~(tag = <<>> /\ ch >= 48 /\ ch <= 57) THEN Lex(s, i + 1, "dolopen", 0, Append(tag, ch), <<>>, out)
                ELSE Lex(s, i, "code", 0, <<>>, <<>>, Append(out \o tag, DOLLAR))      \* a parameter like $1 or a lone $
           [] st = "dol" ->          \* inside $tag$ ... : look for $tag$
                IF ch = DOLLAR THEN
                    IF cur = <<DOLLAR>> \o tag THEN Lex(s, i + 1, "code", 0, <<>>, <<>>, Append(out, -15))
                    ELSE Lex(s, i + 1, "dol", 0, tag, <<DOLLAR>>, out)
                ELSE IF cur # <<>> THEN Lex(s, i + 1, "dol", 0, tag, Append(cur, ch), out)
                ELSE Lex(s, i + 1, "dol", 0, tag, <<>>, out)
           [] st = "sq" ->
                IF ch = SQ THEN (IF nx = SQ THEN Lex(s, i + 2, "sq", 0, <<>>, <<>>, out) ELSE Lex(s, i + 1, "code", 0, <<>>, <<>>, Append(out, -20)))
                ELSE Lex(s, i + 1, "sq", 0, <<>>, <<>>, out)
           [] st = "esq" ->
                IF ch = BS THEN Lex(s, i + 2, "esq", 0, <<>>, <<>>, out)
                ELSE IF ch = SQ THEN (IF nx = SQ THEN Lex(s, i + 2, "esq", 0, <<>>, <<>>, out) ELSE Lex(s, i + 1, "code", 0, <<>>, <<>>, Append(out, -20)))
                ELSE Lex(s, i + 1, "esq", 0, <<>>, <<>>, out)
           [] st = "dq" ->
                IF ch = DQ THEN (IF nx = DQ THEN Lex(s, i + 2, "dq", 0, <<>>, <<>>, out) ELSE Lex(s, i + 1, "code", 0, <<>>, <<>>, Append(out, -21)))
                ELSE Lex(s, i + 1, "dq", 0, <<>>, <<>>, out)
           [] st = "lc" ->
                IF ch = NL THEN Lex(s, i + 1, "code", 0, <<>>, <<>>, Append(out, -22)) ELSE Lex(s, i + 1, "lc", 0, <<>>, <<>>, out)
           [] st = "bc" ->
                IF ch = STAR /\ nx = SLASH THEN (IF depth = 1 THEN Lex(s, i + 2, "code", 0, <<>>, <<>>, Append(out, -23)) ELSE Lex(s, i + 2, "bc", depth - 1, <<>>, <<>>, out))
                ELSE IF ch = SLASH /\ nx = STAR THEN Lex(s, i + 2, "bc", depth + 1, <<>>, <<>>, out)
                ELSE Lex(s, i + 1, "bc", depth, <<>>, <<>>, out)

Skeleton(s) == Lex(s, 1, "code", 0, <<>>, <<>>, <<>>)
SameStructure(a, b) == Skeleton(a) = Skeleton(b)

\* ---- sanity of the automaton (checked by TLC on hand-written statements) -------------
Cp(str) == str   \* statements are given as sequences of code points
ASSUME Skeleton(<<97, 61, SQ, 120, SQ>>) = <<97, 61, -10, -20, -1>>                       \* a='x'
ASSUME Skeleton(<<97, 61, SQ, 120, SQ, SQ, 121, SQ>>) = <<97, 61, -10, -20, -1>>           \* a='x''y'
ASSUME Skeleton(<<97, 61, SQ, 120, SQ, 59>>) # Skeleton(<<97, 61, SQ, 120, SQ>>)           \* a='x';
ASSUME Skeleton(<<SQ, BS, SQ>>) = <<-10, -20, -1>>                                         \* '\' closes (standard strings)
ASSUME Skeleton(<<69, SQ, BS, SQ, SQ>>) = <<69, -10, -20, -1>>                             \* E'\'' 
ASSUME Skeleton(<<DASH, DASH, 120, NL, 97>>) = <<-12, -22, 97, -1>>
ASSUME Skeleton(<<SLASH, STAR, SLASH, STAR, STAR, SLASH, STAR, SLASH, 97>>) = <<-13, -23, 97, -1>>
ASSUME Skeleton(<<DOLLAR, DOLLAR, SQ, DOLLAR, DOLLAR>>) = <<-14, -15, -1>>
ASSUME Skeleton(<<DOLLAR, 49>>) = <<DOLLAR, 49, -1>>

VARIABLE v
Values == Strings(MaxLen)
Init == v \in Values
Next == UNCHANGED v
Spec == Init /\ [][Next]_v
\* a harmless value rendered inside a literal and the value itself give the same skeleton only if the
\* value cannot close the literal: the model of a CORRECT rendering (quote doubling)
RECURSIVE Doubled(_)
Doubled(s) == IF s = <<>> THEN <<>> ELSE IF Head(s) = SQ THEN <<SQ, SQ>> \o Doubled(Tail(s)) ELSE <<Head(s)>> \o Doubled(Tail(s))
SafeRendering == SameStructure(<<97, 61, SQ>> \o Doubled(v) \o <<SQ>>, <<97, 61, SQ>> \o Harmless(v) \o <<SQ>>)
\* ... and a rendering that splices the value as is does not have the property (vacuity guard, expected to FAIL)
NaiveRendering == SameStructure(<<97, 61, SQ>> \o v \o <<SQ>>, <<97, 61, SQ>> \o Harmless(v) \o <<SQ>>)

Emit == TLCGet("stats").generated >= 0 /\ ndJsonSerialize(OutFile, SetToSeq({[v |-> x, h |-> Harmless(x)] : x \in Values \ {<<>>}}))
=============================================================================
