------------------------------ MODULE EngineObs ------------------------------
(* Verdict on the implementation for C02 C05 C06 C07 C10 C11 C14 C16: the      *)
(* predicates of EngineProps.tla evaluated by TLC on the observable history     *)
(* recorded from the real Commander - the logs handed to (and accepted by) the  *)
(* store, the responses of the public methods, the messages published on the    *)
(* bus. The walk is unguarded: nothing depends on Engine.tla's transitions, so  *)
(* an execution that left the specification is still judged.                    *)
EXTENDS EngineProps, Json, TLC

CONSTANT TraceFile
Trace == ndJsonDeserialize(TraceFile)

VARIABLES l,        \* number of consumed lines
          req,      \* requests of the current execution (record)
          store,    \* durable log, in InsertLogs order
          resp,     \* responses so far
          events,   \* published events
          crashes, ended, hashBad, hung,
          failed,   \* names of the predicates already found false in the current execution
          viol      \* << predicate name, line number >> of every first failure

ovars == <<l, req, store, resp, events, crashes, ended, hashBad, hung, failed, viol>>

\* "BE": account B in a second asset (the harness maps it to the same address, asset EUR)
Accts == {"A", "B", "BE", "C", "M", "world"}
Zero == [a \in Accts |-> 0]
P(s, d, a) == [src |-> s, dst |-> d, amt |-> a]
SeedLog(id, kind, txid, tacct, mval, ps) ==
    [id |-> id, kind |-> kind, by |-> "init", txid |-> txid, target |-> -1, tacct |-> tacct, mval |-> mval,
     postings |-> ps, ref |-> "", ik |-> "", od |-> FALSE]
InitStore == <<SeedLog(0, "tx", 0, "", "", <<P("world", "A", 3)>>), SeedLog(1, "set", -1, "M", "A", <<>>)>>

Conv(j) == [id |-> j.id, kind |-> j.kind, by |-> j.by, txid |-> j.txid, target |-> j.target, tacct |-> j.tacct,
            mval |-> j.mval, postings |-> j.postings, ref |-> j.ref, ik |-> j.ik, od |-> j.od]
NoResp(r) == [st |-> "none", txid |-> -1, dry |-> r.dry, ik |-> r.ik]

OInit == /\ l = 0 /\ req = <<>> /\ store = <<>> /\ resp = <<>> /\ events = <<>>
         /\ crashes = 0 /\ ended = FALSE /\ hashBad = FALSE /\ hung = FALSE
         /\ failed = {} /\ viol = {}
         /\ TLCSet(1, {})

Consume ==
    /\ l < Len(Trace)
    /\ l' = l + 1
    /\ LET e == Trace[l + 1] IN
       CASE e.ev = "reset" ->
              /\ req' = e.req
              /\ store' = IF "SeedTx" \in DOMAIN e.design /\ ~e.design.SeedTx
                          THEN <<SeedLog(0, "set", -1, "M", "A", <<>>)>> ELSE InitStore
              /\ resp' = [p \in DOMAIN e.req |-> NoResp(e.req[p])]
              /\ events' = <<>> /\ crashes' = 0 /\ ended' = FALSE /\ hashBad' = FALSE /\ hung' = FALSE
         [] e.ev = "persist" ->
              /\ store' = store \o [i \in 1..Len(e.logs) |-> Conv(e.logs[i])]
              /\ hashBad' = (hashBad \/ \E i \in 1..Len(e.logs) : ~e.logs[i].hashOk)
              /\ UNCHANGED <<req, resp, events, crashes, ended, hung>>
         [] e.ev = "resp" ->
              /\ resp' = IF e.p \in DOMAIN resp THEN [resp EXCEPT ![e.p] = [st |-> e.st, txid |-> e.txid, dry |-> e.dry, ik |-> e.ik]] ELSE resp
              /\ UNCHANGED <<req, store, events, crashes, ended, hashBad, hung>>
         [] e.ev = "publish" ->
              /\ events' = Append(events, [type |-> e.type, by |-> e.by, ik |-> e.ik, txid |-> e.txid,
                                           target |-> e.target, tacct |-> e.tacct, postings |-> e.postings, mval |-> e.mval])
              /\ UNCHANGED <<req, store, resp, crashes, ended, hashBad, hung>>
         [] e.ev = "crash" ->
              /\ crashes' = crashes + 1
              /\ UNCHANGED <<req, store, resp, events, ended, hashBad, hung>>
         [] e.ev = "end" ->
              /\ ended' = TRUE
              /\ hung' = (hung \/ e.locks # 0 \/ e.refs # 0 \/ e.unanswered # <<>>)
              /\ UNCHANGED <<req, store, resp, events, crashes, hashBad>>
         [] e.ev = "hung" ->
              /\ hung' = TRUE
              /\ UNCHANGED <<req, store, resp, events, crashes, ended, hashBad>>
         [] OTHER -> UNCHANGED <<req, store, resp, events, crashes, ended, hashBad, hung>>

\* ---- the predicates, over explicit values (evaluated on the state after the line) ----
Failing(rq, st, rs, ev, cr, en, hb, hg) ==
    LET procs == DOMAIN rq
        dry == {p \in procs : rq[p].dry}
        failedResp == [p \in procs |-> IF rs[p].st = "panic" THEN [rs[p] EXCEPT !.st = "err"] ELSE rs[p]]
        T(name, ok) == IF ok THEN {} ELSE {name}
    IN  T("C02_SerialFunds", SerialFunds(st, Zero))
        \cup T("C05_IdsGapFree", IdsGapFree(st))
        \cup T("C05_TxIdsSequential", TxIdsSequential(st))
        \cup T("C05_HashChain", ~hb)
        \cup T("C06_AckPersisted", AckPersisted(st, rs))
        \cup T("C06_RejectedLeavesNothing", RejectedLeavesNothing(st, failedResp))
        \cup T("C06_OneEntryPerRequest", AtMostOneEntryPerRequest(st, procs) /\ EveryEntryHasProducer(st, procs \cup {"probe1", "probe2"}))
        \cup T("C07_IkOnce", IkOnce(st) /\ IkSameOutcome(rs) /\ IkOncePerRequestKey(st, [p \in procs |-> rq[p].ik]))
        \cup T("C10_RevertOnce", RevertOnce(st) /\ RevertIsInverse(st))
        \cup T("C11_RefOnce", RefOnce(st))
        \cup T("C14_DryRun", DryLeavesNoEntry(st, dry) /\ DryPublishesNothing(ev, dry))
        \cup T("C14_NoIdConsumed", (dry # {}) => TxIdsSequential(st))
        \cup T("C16_EventsFaithful", EventsFaithful(ev, st))
        \cup T("C16_AllPublished", (en /\ cr = 0) => AllPublished(ev, st, rs))
        \cup T("NothingLeftBehind", ~hg)

ONext ==
    /\ Consume
    /\ LET f == IF Trace[l + 1].ev = "reset" THEN {}
                ELSE Failing(req', store', resp', events', crashes', ended', hashBad', hung')
           old == IF Trace[l + 1].ev = "reset" THEN {} ELSE failed
       IN /\ failed' = old \cup f
          /\ viol' = viol \cup {<<n, l + 1>> : n \in f \ old}
          /\ TLCSet(1, viol')

\* at the end of the run the verdict is printed once for the driver (tlc -workers 1)
Post == PrintT(<<"OBS-VERDICT", TLCGet(1)>>)

OSpec == OInit /\ [][ONext]_ovars

Procs == DOMAIN req
DryProcs == {p \in Procs : req[p].dry}
Answered == [p \in {q \in Procs : resp[q].st \in {"ok"}} |-> resp[p]]
\* a panic is reported to the caller as a failure
Failed == [p \in Procs |-> IF resp[p].st = "panic" THEN [resp[p] EXCEPT !.st = "err"] ELSE resp[p]]

ObsC02_SerialFunds     == SerialFunds(store, Zero)
ObsC05_IdsGapFree      == IdsGapFree(store)
ObsC05_TxIdsSequential == TxIdsSequential(store)
ObsC05_HashChain       == ~hashBad
ObsC06_AckPersisted    == AckPersisted(store, resp)
ObsC06_RejectedLeavesNothing == RejectedLeavesNothing(store, Failed)
ObsC06_OneEntryPerRequest    == AtMostOneEntryPerRequest(store, Procs) /\ EveryEntryHasProducer(store, Procs)
ObsC07_IkOnce          == IkOnce(store) /\ IkSameOutcome(resp) /\ IkOncePerRequestKey(store, [p \in Procs |-> req[p].ik])
ObsC10_RevertOnce      == RevertOnce(store) /\ RevertIsInverse(store)
ObsC11_RefOnce         == RefOnce(store)
ObsC14_DryRun          == DryLeavesNoEntry(store, DryProcs) /\ DryPublishesNothing(events, DryProcs)
ObsC14_NoIdConsumed    == TxIdsSequential(store)
ObsC16_EventsFaithful  == EventsFaithful(events, store)
ObsC16_AllPublished    == (ended /\ crashes = 0) => AllPublished(events, store, resp)
ObsNoHang              == ~hung
=============================================================================
