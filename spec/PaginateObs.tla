---------------------------- MODULE PaginateObs ----------------------------
(* Verdict on the implementation for C17 (traversal part): every traversal        *)
(* enumerated by Paginate.tla was executed with the real UsingColumn / UsingOffset *)
(* over the fake SQL driver, following the cursor tokens handed out.               *)
EXTENDS Naturals, Sequences, FiniteSets, TLC, Json

CONSTANT ResultFile, MaxReport
Results == ndJsonDeserialize(ResultFile)
VARIABLES l, viol, cnt
ovars == <<l, viol, cnt>>
Names == {"C17_EveryPageIsThePageDue", "C17_HasMoreIffFurtherPage", "C17_PreviousOffered", "C17_CursorAccepted", "C17_CursorStandsForSameQuery", "C17_PageSizeAtLeastOne"}

MinL(a, b) == IF a < b THEN a ELSE b
Failing(r) ==
    LET T(name, ok) == IF ok THEN {} ELSE {name}
        n == MinL(Len(r.steps), Len(r.real))
    IN  T("C17_EveryPageIsThePageDue", Len(r.real) = Len(r.steps) /\ \A i \in 1..n : r.real[i].data = r.steps[i].canon)
        \cup T("C17_HasMoreIffFurtherPage", \A i \in 1..n : r.real[i].hasMore = r.steps[i].hasMore /\ r.real[i].hasMore = r.real[i].hasNext)
        \cup T("C17_PreviousOffered", \A i \in 1..n : r.real[i].hasPrev = r.steps[i].hasPrev)
        \cup T("C17_CursorAccepted", \A i \in 1..Len(r.real) : r.real[i].err = "")
        \cup T("C17_PageSizeAtLeastOne", "pageSizeParam" \in DOMAIN r => (r.pageSizeErr \/ r.pageSize >= 1))
        \cup T("C17_CursorStandsForSameQuery", \A i \in 1..Len(r.real) : r.real[i].err # "" \/ r.real[i].cursorsRoundTrip)

OInit == l = 0 /\ viol = {} /\ cnt = [n \in Names |-> 0] /\ TLCSet(1, {}) /\ TLCSet(2, [n \in Names |-> 0])
ONext ==
    /\ l < Len(Results)
    /\ l' = l + 1
    /\ LET f == Failing(Results[l + 1]) IN
       /\ cnt' = [n \in Names |-> IF n \in f THEN cnt[n] + 1 ELSE cnt[n]]
       /\ viol' = viol \cup {<<n, l + 1>> : n \in {m \in f : cnt[m] < MaxReport}}
    /\ TLCSet(1, viol') /\ TLCSet(2, cnt')
OSpec == OInit /\ [][ONext]_ovars
Post == PrintT(<<"OBS-VERDICT", TLCGet(1)>>) /\ PrintT(<<"OBS-COUNTS", TLCGet(2)>>)
=============================================================================
