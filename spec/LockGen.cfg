SPECIFICATION GenSpec
CONSTANTS
  Req = {"r1", "r2", "r3"}
  Acct = {"a", "b"}
  CancelDesign = "release"
  MaxCancel = 2
  OutDir = "OUTDIR"
  MaxLen = 14
CHECK_DEADLOCK FALSE
