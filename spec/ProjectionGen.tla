---------------------------- MODULE ProjectionGen ----------------------------
(* History generator for C04: tlc -simulate walks Projection.tla's behaviours  *)
(* (two ledgers in one bucket) and writes, per behaviour, the projected tables  *)
(* (what the database holds), the logs and what Replay says every read must     *)
(* report (Expect), for every ledger and point in time. storeconf -mode project *)
(* serves the tables to the real Store through the fake driver and records what *)
(* the read methods answer; ProjectionObs.tla compares.                         *)
EXTENDS Projection, Json, SequencesExt, Randomization
CONSTANT OutDir
VARIABLE emitted
gvars == <<vars, emitted>>

P(s, d, a) == [src |-> s, dst |-> d, asset |-> "USD", amt |-> a]
PalGen == {<<P("world", "a", 2)>>, <<P("world", "b", 3)>>, <<P("a", "b", 1)>>, <<P("b", "a", 1)>>,
           <<P("world", "a", 1), P("a", "b", 1)>>, <<P("world", "a", 1), P("world", "a", 2)>>,
           <<P("world", "a", 2), P("a", "b", 1), P("a", "world", 1)>>}
PalSmall == {<<P("world", "a", 2)>>, <<P("a", "b", 1)>>, <<P("world", "a", 1), P("a", "b", 1)>>}
PalOdd == PalSmall \cup {<<P("a", "a", 1)>>, <<P("world", "a", 1), P("world", "a", 2)>>}
PalBack == {<<P("world", "a", 2)>>, <<P("a", "b", 1)>>}

Touches(e, a) == \E j \in 1..Len(e.postings) : a \in {e.postings[j].src, e.postings[j].dst}
TxAccts(e) == {a \in Accts : Touches(e, a)}
RAccountsAt(log, pit) == RAccounts(SelectSeq(log, LAMBDA e : Visible(e, pit)))

ExpectTx(log, n, pit) ==
    LET e == log[n] IN
    [id |-> e.id, ts |-> e.ts,
     visible |-> RTxVisible(log, e.id, pit),
     reverted |-> RReverted(log, e.id, pit),
     md |-> RTxMd(log, e.id, pit),
     postings |-> e.postings,
     post |-> [a \in TxAccts(e) |-> RVolumesAfter(log, n, a, "USD")],
     pre |-> [a \in TxAccts(e) |-> RVolumesAfter(log, n - 1, a, "USD")],
     epost |-> [a \in TxAccts(e) |-> REffVolumesUpTo(log, n, a, "USD", TRUE)],
     epre |-> [a \in TxAccts(e) |-> REffVolumesUpTo(log, n, a, "USD", FALSE)]]

Expect(L, pit) ==
    LET log == logs[L]
        ns == SetToSortSeq(TxEntries(log), <)
    IN [ledger |-> L, pit |-> pit,
        accts |-> [a \in Accts |-> [exists |-> a \in RAccountsAt(log, pit),
                                   md |-> RAcctMd(log, a, pit),
                                   vol |-> RVolumes(log, a, "USD", pit),
                                   evol |-> REffVolumes(log, a, "USD", pit),
                                   bal |-> RBalance(log, a, "USD")]],
        txs |-> [i \in 1..Len(ns) |-> ExpectTx(log, ns[i], pit)],
        agg |-> RAggregated(log, "USD", pit),
        nlogs |-> Len(log)]

Emit ==
    /\ ~emitted
    /\ clock > MaxLogs
    /\ ndJsonSerialize(OutDir \o "/h" \o ToString(TLCGet("stats").traces) \o ".ndjson",
                       <<[logs |-> logs, db |-> db,
                          expect |-> [L \in Ledgers |-> [pit \in Pits |-> Expect(L, pit)]]]>>)
    /\ emitted' = TRUE
    /\ UNCHANGED vars

GenInit == Init /\ emitted = FALSE
\* one random candidate per step (simulation draws the ledger): the successor set stays small
\* the kind is drawn first so that reverts and metadata changes are as frequent as transactions
OfKind(L, k) == {e \in Candidates(L) : e.type = k}
RandNext == \E L \in Ledgers :
              LET kinds == {k \in {"tx", "tx2", "rev", "set", "del"} : OfKind(L, IF k = "tx2" THEN "tx" ELSE k) # {}}
                  k == RandomElement(kinds)
              IN \E e \in {RandomElement(OfKind(L, IF k = "tx2" THEN "tx" ELSE k))} : Insert(L, e)
GenNext == (RandNext /\ UNCHANGED emitted) \/ Emit
GenSpec == GenInit /\ [][GenNext]_gvars
\* exhaustive model checking of Projection.tla with this module's palettes
MCSpec == GenInit /\ [][Next /\ UNCHANGED emitted]_gvars
=============================================================================
