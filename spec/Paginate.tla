------------------------------ MODULE Paginate ------------------------------
(* Cursor pagination (C17): libs/bun/bunpaginate UsingColumn / UsingOffset.      *)
(* An abstract collection is a set of distinct ids; a traversal is First followed  *)
(* by a word over {"N" (follow next), "P" (follow previous)}.                      *)
(*  - Page(...) transcribes the two algorithms (pageSize+1 look-ahead, inclusive   *)
(*    bound forward, exclusive bound backward, bottom, reverse; offset arithmetic) *)
(*  - Canon(...) is what the property demands: the k-th page of the ordered        *)
(*    collection, hasMore iff a further page exists.                               *)
(* TLC checks Page = Canon along every traversal (design level) and emits the      *)
(* traversals for the replay on the real code over the fake SQL driver.            *)
EXTENDS Integers, Sequences, FiniteSets, TLC, Json, SequencesExt

CONSTANTS Colls,      \* set of collections (sets of ids)
          MaxPage,    \* page sizes 1..MaxPage
          MaxWord,    \* traversal words up to this length
          OutFile

NoId == -1
None == [none |-> TRUE]

RECURSIVE SortAsc(_)
SortAsc(S) == IF S = {} THEN <<>> ELSE LET m == CHOOSE x \in S : \A y \in S : x <= y IN <<m>> \o SortAsc(S \ {m})
RevSeq(s) == [i \in 1..Len(s) |-> s[Len(s) + 1 - i]]
Sorted(S, order) == IF order = "asc" THEN SortAsc(S) ELSE RevSeq(SortAsc(S))
Flip(o) == IF o = "asc" THEN "desc" ELSE "asc"
Take(s, n) == SubSeq(s, 1, IF n < Len(s) THEN n ELSE Len(s))

\* ---- column pagination: query = [pid, bottom, reverse] ---------------------------
ColQ(pid, bottom, rev) == [none |-> FALSE, pid |-> pid, bottom |-> bottom, reverse |-> rev, offset |-> 0]
ColPage(coll, order, ps, q) ==
    LET before(x) == IF order = "asc" THEN x < q.pid ELSE x > q.pid
        cand == {x \in coll : q.pid = NoId \/ (q.reverse /\ before(x)) \/ (~q.reverse /\ ~before(x))}
        rows == Take(Sorted(cand, IF q.reverse THEN Flip(order) ELSE order), ps + 1)
        bottom == IF q.bottom = NoId /\ rows # <<>> THEN rows[1] ELSE q.bottom
        more == Len(rows) > ps
        kept == IF more THEN SubSeq(rows, 1, Len(rows) - 1) ELSE rows
        nxt == IF q.reverse THEN ColQ(q.pid, bottom, FALSE)
               ELSE IF more THEN ColQ(rows[Len(rows)], bottom, FALSE) ELSE None
        prv == IF q.reverse THEN (IF more THEN ColQ(rows[Len(rows) - 1], bottom, TRUE) ELSE None)
               ELSE IF q.pid # NoId /\ bottom # NoId /\ ((order = "asc" /\ q.pid > bottom) \/ (order = "desc" /\ q.pid < bottom))
                    THEN ColQ(q.pid, bottom, TRUE) ELSE None
    IN [data |-> IF q.reverse THEN RevSeq(kept) ELSE kept, hasMore |-> ~nxt.none, next |-> nxt, prev |-> prv]

\* ---- offset pagination: query = [offset] -------------------------------------------
OffQ(off) == [none |-> FALSE, pid |-> NoId, bottom |-> NoId, reverse |-> FALSE, offset |-> off]
OffPage(coll, order, ps, q) ==
    LET all == Sorted(coll, order)
        rows == Take(SubSeq(all, q.offset + 1, Len(all)), ps + 1)
        more == Len(rows) > ps
        nxt == IF more THEN OffQ(q.offset + ps) ELSE None
        prv == IF q.offset > 0 THEN OffQ(IF q.offset - ps < 0 THEN 0 ELSE q.offset - ps) ELSE None
    IN [data |-> IF more THEN SubSeq(rows, 1, Len(rows) - 1) ELSE rows, hasMore |-> ~nxt.none, next |-> nxt, prev |-> prv]

Page(mode, coll, order, ps, q) == IF mode = "column" THEN ColPage(coll, order, ps, q) ELSE OffPage(coll, order, ps, q)
FirstQ(mode) == IF mode = "column" THEN ColQ(NoId, NoId, FALSE) ELSE OffQ(0)

\* ---- what the property demands ------------------------------------------------------
NumPages(coll, ps) == IF coll = {} THEN 1 ELSE (Cardinality(coll) + ps - 1) \div ps
Canon(coll, order, ps, k) ==
    LET all == Sorted(coll, order) IN
    [data |-> SubSeq(all, (k - 1) * ps + 1, IF k * ps < Len(all) THEN k * ps ELSE Len(all)),
     hasMore |-> k < NumPages(coll, ps), hasPrev |-> k > 1]

\* ---- traversals -----------------------------------------------------------------------
RECURSIVE Words(_)
Words(n) == IF n = 0 THEN {<<>>} ELSE LET w == Words(n - 1) IN w \cup {Append(x, c) : x \in {y \in w : Len(y) = n - 1}, c \in {"N", "P"}}

RECURSIVE Walk(_, _, _, _, _, _, _)
\* -> sequence of [k (logical page), page] ; stops when the word asks for a cursor that is not there
Walk(mode, coll, order, ps, q, k, word) ==
    LET pg == Page(mode, coll, order, ps, q)
        here == <<[k |-> k, page |-> pg]>>
    IN IF word = <<>> THEN here
       ELSE IF Head(word) = "N"
            THEN IF pg.next.none THEN here ELSE here \o Walk(mode, coll, order, ps, pg.next, k + 1, Tail(word))
            ELSE IF pg.prev.none THEN here ELSE here \o Walk(mode, coll, order, ps, pg.prev, k - 1, Tail(word))

\* page sizes beyond 100 (the v1 API accepts up to 1000) over a collection of 230 items, short traversals
LargeCases == {[mode |-> m, coll |-> 1..230, order |-> o, ps |-> p, word |-> w] :
                  m \in {"column", "offset"}, o \in {"asc", "desc"}, p \in {100, 101, 150},
                  w \in {<<>>, <<"N">>, <<"N", "N">>, <<"N", "P">>}}
Cases == {[mode |-> m, coll |-> c, order |-> o, ps |-> p, word |-> w] :
             m \in {"column", "offset"}, c \in Colls, o \in {"asc", "desc"}, p \in 1..MaxPage, w \in Words(MaxWord)}
         \cup LargeCases

VARIABLE c
Init == c \in Cases
Next == UNCHANGED c
Spec == Init /\ [][Next]_c

Steps(cs) == Walk(cs.mode, cs.coll, cs.order, cs.ps, FirstQ(cs.mode), 1, cs.word)

\* C17 on the algorithms: every page reached is the canonical page, with the right cursors
PagesAreCanonical ==
    \A i \in 1..Len(Steps(c)) :
        LET s == Steps(c)[i] cn == Canon(c.coll, c.order, c.ps, s.k) IN
        /\ s.page.data = cn.data
        /\ s.page.hasMore = cn.hasMore
        /\ (~s.page.prev.none) = cn.hasPrev
        /\ s.page.hasMore = ~s.page.next.none

Emit == TLCGet("stats").generated >= 0 /\
        ndJsonSerialize(OutFile, SetToSeq({[mode |-> cs.mode, coll |-> SortAsc(cs.coll), order |-> cs.order, ps |-> cs.ps, word |-> cs.word,
                                            steps |-> [i \in 1..Len(Steps(cs)) |->
                                                [k |-> Steps(cs)[i].k, data |-> Steps(cs)[i].page.data, hasMore |-> Steps(cs)[i].page.hasMore,
                                                 hasPrev |-> ~Steps(cs)[i].page.prev.none,
                                                 canon |-> Canon(cs.coll, cs.order, cs.ps, Steps(cs)[i].k).data]]] : cs \in Cases}))
=============================================================================
