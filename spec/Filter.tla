------------------------------- MODULE Filter -------------------------------
(* The filter expressions the list endpoints accept (C17 cursor part, C20):      *)
(* abstract syntax of query bodies { $match | $lt | $lte | $gt | $gte : {key: v} } *)
(* combined with $and / $or / $not, over the keys each endpoint knows, plus the     *)
(* query options (point in time, expand flags, page size). TLC enumerates them;     *)
(* values are symbolic kinds bound to concrete strings by the harness.              *)
EXTENDS Naturals, Sequences, FiniteSets, TLC, Json, SequencesExt

CONSTANT OutFile, Depth

Endpoints == {"transactions", "accounts", "logs"}
Keys(ep) == CASE ep = "transactions" -> {"reference", "timestamp", "account", "source", "destination", "metadata[k]", "id"}
              [] ep = "accounts" -> {"address", "metadata[k]", "balance[USD]", "balance"}
              [] ep = "logs" -> {"date", "id"}     \* id: what v1's `after` parameter becomes
Ops == {"$match", "$lt", "$lte", "$gt", "$gte"}
OnlyMatch == {"account", "source", "destination", "address", "metadata[k]"}
ValKind(key) == CASE key \in {"account", "source", "destination", "address"} -> {"addr", "addr-segments"}
                  [] key \in {"timestamp", "date"} -> {"time"}
                  [] key \in {"balance[USD]", "balance", "id"} -> {"num"}
                  [] OTHER -> {"str"}

KV(op, key, v) == [t |-> "kv", op |-> op, key |-> key, val |-> v, items |-> <<>>]
NotE(e)        == [t |-> "not", op |-> "", key |-> "", val |-> "", items |-> <<e>>]
SetE(op, es)   == [t |-> op, op |-> "", key |-> "", val |-> "", items |-> es]

Leaves(ep) == {KV(op, k, v) : op \in Ops, k \in Keys(ep), v \in UNION {ValKind(kk) : kk \in Keys(ep)}}
\* the expressions the endpoint accepts: the operator is allowed for the key, the value has the key's kind
Accepted(ep, l) == l.val \in ValKind(l.key) /\ (l.key \in OnlyMatch => l.op = "$match")
Good(ep) == {l \in Leaves(ep) : Accepted(ep, l)}

Exprs(ep) ==
    LET g == Good(ep)
        d1 == g \cup {NotE(l) : l \in g} \cup {SetE(o, <<a, b>>) : o \in {"and", "or"}, a \in g, b \in g} \cup {SetE("and", <<>>), SetE("or", <<>>), NotE(SetE("or", <<>>))}
                \cup {SetE("and", <<a, SetE("or", <<>>)>>) : a \in {l \in g : l.op = "$match"}}
    IN IF Depth <= 1 THEN d1
       ELSE d1 \cup {SetE(o, <<a, NotE(b)>>) : o \in {"and", "or"}, a \in g, b \in g}
               \cup {SetE("and", <<a, SetE("or", <<b, c>>)>>) : a \in {l \in g : l.op = "$match"}, b \in g, c \in {l \in g : l.op = "$match"}}

Options(ep) == [pit : BOOLEAN, volumes : IF ep = "logs" THEN {FALSE} ELSE BOOLEAN,
                effective : IF ep = "logs" THEN {FALSE} ELSE BOOLEAN, pageSize : {1, 3}]

Cases == UNION {{[ep |-> ep, expr |-> e, opt |-> o] : e \in Exprs(ep) \cup {[t |-> "none", op |-> "", key |-> "", val |-> "", items |-> <<>>]}, o \in Options(ep)} : ep \in Endpoints}

\* the cases are a constant of the module (TLC evaluates them once); the behaviour is a single state holding their number
VARIABLE c
Init == c = Cardinality(Cases)
Next == UNCHANGED c
Spec == Init /\ [][Next]_c
Emit == TLCGet("stats").generated >= 0 /\ ndJsonSerialize(OutFile, SetToSeq(Cases))
=============================================================================
