----------------------------- MODULE RouterObs -----------------------------
(* Verdict on the implementation for C19: every enumerated request was served by *)
(* the real api.NewRouter(..., readOnly = TRUE) (and, as a vacuity guard and      *)
(* conformance check, by readOnly = FALSE) over a recording backend.              *)
EXTENDS Naturals, Sequences, FiniteSets, TLC, Json

CONSTANT ResultFile, MaxReport
Results == ndJsonDeserialize(ResultFile)

VARIABLES l, viol, cnt
ovars == <<l, viol, cnt>>
Names == {"C19_NoWriteWhenReadOnly", "C14_PreviewFlagReachesBackend", "Conf_ReadWriteMatchesModel", "Conf_ReadOnlyStatusMatchesModel"}
\* C14 at the HTTP boundary: a request carrying its API version's preview flag with the value true
\* (v2: dryRun, v1: preview) never reaches the backend as a real write. The bulk endpoints take no such flag.
CarriesOwnFlag(r) == \/ r.variant = "dry-run-query"
                     \/ (r.ver = "v2" /\ r.variant = "dry-run-only")
                     \/ (r.ver = "v1" /\ r.variant = "preview-only")
IsBulk(r) == r.bulk

Failing(r) ==
    LET T(name, ok) == IF ok THEN {} ELSE {name} IN
    T("C19_NoWriteWhenReadOnly", r.ro.writes = 0)
    \cup T("C14_PreviewFlagReachesBackend", (CarriesOwnFlag(r) /\ ~IsBulk(r)) => r.rw.writes = 0)
    \cup T("Conf_ReadWriteMatchesModel", r.expRW.write = (r.rw.writes + r.rw.dryWrites > 0) \/ r.rw.status >= 400)
    \cup T("Conf_ReadOnlyStatusMatchesModel", (r.expRO.status = "rejected") => (r.ro.status = 400))

OInit == l = 0 /\ viol = {} /\ cnt = [n \in Names |-> 0] /\ TLCSet(1, {}) /\ TLCSet(2, [n \in Names |-> 0])
ONext ==
    /\ l < Len(Results)
    /\ l' = l + 1
    /\ LET f == Failing(Results[l + 1]) IN
       /\ cnt' = [n \in Names |-> IF n \in f THEN cnt[n] + 1 ELSE cnt[n]]
       /\ viol' = viol \cup {<<n, l + 1>> : n \in {m \in f : cnt[m] < MaxReport}}
    /\ TLCSet(1, viol') /\ TLCSet(2, cnt')
OSpec == OInit /\ [][ONext]_ovars
Post == PrintT(<<"OBS-VERDICT", TLCGet(1)>>) /\ PrintT(<<"OBS-COUNTS", TLCGet(2)>>)
=============================================================================
