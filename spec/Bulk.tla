-------------------------------- MODULE Bulk --------------------------------
(* v2 bulk endpoint (C18): internal/api/v2/bulk.go ProcessBulk + bulkHandler.   *)
(* One action per element. An element is                                         *)
(*   [kind \in {"CREATE","ADD_META","REVERT","DEL_META","UNKNOWN","MALFORMED"},   *)
(*    fail \in BOOLEAN]   (fail: the backend call of an executable element fails) *)
(* Each bulk also has a pattern saying which positions carry request attributes of *)
(* their own (idempotency key; for CREATE also reference, timestamp, an extra      *)
(* metadata key): none, all, the odd or the even positions. What the backend is    *)
(* handed for an element must be that element's own attributes (seen).             *)
(* Design switches: what the loop does with an unknown action / unparsable data,   *)
(* and whether the per-element request values start afresh for every element.      *)
EXTENDS Naturals, Sequences, FiniteSets, TLC, Json, SequencesExt

CONSTANTS MaxLen, OutFile,
          UnknownYieldsResult,    \* TRUE: an unknown action gets an error result (and counts as a failure)
          MalformedYieldsResult,  \* TRUE: unparsable element data gets an error result instead of aborting the response
          ParamsPerElement        \* TRUE: parameters / decoded data start afresh for every element (FALSE: absent ones keep the previous element's)

Kinds == {"CREATE", "ADD_META", "REVERT", "DEL_META"}
Elems == {[kind |-> k, fail |-> f] : k \in Kinds, f \in BOOLEAN}
         \cup {[kind |-> "UNKNOWN", fail |-> TRUE], [kind |-> "MALFORMED", fail |-> TRUE]}
Executable(e) == e.kind \in Kinds

VARIABLES bulk, cont, pat, i, results, executed, failed, aborted, stopped, seen, carry
vars == <<bulk, cont, pat, i, results, executed, failed, aborted, stopped, seen, carry>>
Patterns == {"none", "all", "odd", "even"}
Rich(p, k) == p = "all" \/ (p = "odd" /\ k % 2 = 1) \/ (p = "even" /\ k % 2 = 0)
\* the attributes element k carries: its own position, or 0 for none
Own(p, k) == IF Rich(p, k) THEN k ELSE 0

RECURSIVE SeqsUpTo(_)
SeqsUpTo(n) == IF n = 0 THEN {<<>>} ELSE LET s == SeqsUpTo(n - 1) IN s \cup {Append(x, e) : x \in {y \in s : Len(y) = n - 1}, e \in Elems}

Init == /\ bulk \in SeqsUpTo(MaxLen) /\ cont \in BOOLEAN /\ pat \in Patterns
        /\ seen = <<>> /\ carry = 0
        /\ i = 1 /\ results = <<>> /\ executed = <<>> /\ failed = FALSE /\ aborted = FALSE /\ stopped = FALSE

Err == [ok |-> FALSE]
Ok == [ok |-> TRUE]

Process ==
    /\ ~stopped /\ i <= Len(bulk)
    /\ LET e == bulk[i] IN
       CASE Executable(e) ->
              /\ executed' = Append(executed, i)
              /\ LET passed == IF ParamsPerElement \/ Own(pat, i) # 0 THEN Own(pat, i) ELSE carry
                 IN seen' = Append(seen, passed) /\ carry' = passed
              /\ results' = Append(results, IF e.fail THEN Err ELSE Ok)
              /\ failed' = (failed \/ e.fail)
              /\ stopped' = (e.fail /\ ~cont)
              /\ UNCHANGED aborted
         [] e.kind = "UNKNOWN" ->
              IF UnknownYieldsResult
              THEN /\ results' = Append(results, Err) /\ failed' = TRUE /\ stopped' = ~cont /\ UNCHANGED <<executed, aborted, seen, carry>>
              ELSE UNCHANGED <<results, executed, failed, aborted, stopped, seen, carry>>
         [] e.kind = "MALFORMED" ->
              IF MalformedYieldsResult
              THEN /\ results' = Append(results, Err) /\ failed' = TRUE /\ stopped' = ~cont /\ UNCHANGED <<executed, aborted, seen, carry>>
              ELSE /\ results' = <<>> /\ aborted' = TRUE /\ stopped' = TRUE /\ UNCHANGED <<executed, failed, seen, carry>>
    /\ i' = i + 1
    /\ UNCHANGED <<bulk, cont, pat>>

Done == (stopped \/ i > Len(bulk)) /\ UNCHANGED vars
Next == Process \/ Done
Spec == Init /\ [][Next]_vars

Finished == stopped \/ i > Len(bulk)
Processed == i - 1
Status == IF failed \/ aborted THEN 400 ELSE 200

\* ---- C18 -----------------------------------------------------------------------
\* executed in order: the executed positions are exactly the executable elements among the processed ones
InOrder == executed = SelectSeq([k \in 1..Processed |-> k], LAMBDA k : Executable(bulk[k]))
\* one result per processed element, at the same position, describing that element
OneResultPerElement == Finished => (Len(results) = Processed /\ \A k \in 1..Processed : results[k].ok = (Executable(bulk[k]) /\ ~bulk[k].fail))
\* nothing after the first failing element is executed unless continue-on-failure
StopsAtFailure == ~cont => \A k \in 1..Len(executed) : \A j \in 1..(executed[k] - 1) : ~bulk[j].fail
\* the response signals failure exactly when some processed element failed
SignalsFailure == Finished => ((Status = 400) = \E k \in 1..Processed : bulk[k].fail)

\* every executed element is handed its own attributes, nobody else's
ElementsIndependent == \A k \in 1..Len(seen) : seen[k] = Own(pat, executed[k])

Emit == TLCGet("stats").generated >= 0 /\
        ndJsonSerialize(OutFile, SetToSeq({[bulk |-> b, cont |-> c, pat |-> p] : b \in SeqsUpTo(MaxLen) \ {<<>>}, c \in BOOLEAN, p \in Patterns}))
=============================================================================
