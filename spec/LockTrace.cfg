SPECIFICATION TraceSpec
CONSTANTS
  Req = {"r1", "r2", "r3", "r4", "r5", "r6", "r7", "r8"}
  Acct = {"a", "b", "c"}
  CancelDesign = "CANCELDESIGN"
  MaxCancel = 99
  TraceFile = "TRACEFILE"
INVARIANTS Exclusion Progress
CHECK_DEADLOCK TRUE
