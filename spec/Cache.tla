------------------------------- MODULE Cache -------------------------------
(* Compilation cache of the engine (C08, last sentence): command.Compiler, a     *)
(* bounded cache keyed by the digest of the script text. Whatever the capacity    *)
(* and the eviction order, Compile(text) must behave as a fresh compilation of    *)
(* that text. TLC enumerates request sequences over a few texts and capacities    *)
(* (with every eviction choice) and emits them for the replay, sequentially and   *)
(* from concurrent goroutines sharing one Compiler.                               *)
EXTENDS Naturals, Sequences, FiniteSets, TLC, Json, SequencesExt

CONSTANTS Texts, Caps, MaxLen, OutFile

VARIABLES cap, cache, reqs, answers
vars == <<cap, cache, reqs, answers>>

Init == cap \in Caps /\ cache = {} /\ reqs = <<>> /\ answers = <<>>

\* a hit answers the cached program (which is the program of that text); a miss compiles and stores,
\* evicting any one entry when full
Get(t) ==
    /\ Len(reqs) < MaxLen
    /\ reqs' = Append(reqs, t)
    /\ answers' = Append(answers, t)          \* the program of text t
    /\ IF t \in cache THEN cache' = cache
       ELSE IF Cardinality(cache) < cap THEN cache' = cache \cup {t}
       ELSE \E v \in cache : cache' = (cache \ {v}) \cup {t}
    /\ UNCHANGED cap

Next == \E t \in Texts : Get(t)
Spec == Init /\ [][Next]_vars

SameAsFresh == answers = reqs
Bounded == Cardinality(cache) <= cap

RECURSIVE SeqsOf(_)
SeqsOf(n) == IF n = 0 THEN {<<>>} ELSE LET s == SeqsOf(n - 1) IN s \cup {Append(x, t) : x \in {y \in s : Len(y) = n - 1}, t \in Texts}
Emit == TLCGet("stats").generated >= 0 /\
        ndJsonSerialize(OutFile, SetToSeq({[cap |-> c, reqs |-> r] : c \in Caps, r \in {x \in SeqsOf(MaxLen) : Len(x) = MaxLen}}))
=============================================================================
