SPECIFICATION FairSpec
CONSTANTS
  Req = {r1, r2, r3}
  Acct = {a, b}
  CancelDesign = "release"
  MaxCancel = 2
INVARIANTS TypeOK Exclusion NoLeak Progress QueueIsWaiters
PROPERTY EventuallyServed
CHECK_DEADLOCK FALSE
