----------------------------- MODULE CursorObs -----------------------------
(* Verdict on the implementation for C17 (cursor part): for every (endpoint,     *)
(* filter expression, options) case of Filter.tla the real Store ran the list     *)
(* query over the fake database, the cursor it handed out was decoded the way     *)
(* the controllers do and the decoded query was run again.                        *)
EXTENDS Naturals, Sequences, FiniteSets, TLC, Json

CONSTANT ResultFile, MaxReport
Results == ndJsonDeserialize(ResultFile)
VARIABLES l, viol, cnt
ovars == <<l, viol, cnt>>
Names == {"C17_ListDoesNotCrash", "C17_CursorAccepted", "C17_CursorStandsForSameQuery", "C17_CursorKeepsOptions", "Conf_FilterAccepted", "Conf_NextHandedOut"}

Failing(r) ==
    LET T(name, ok) == IF ok THEN {} ELSE {name} o == r.obs IN
    \* a filter a list endpoint builds or accepts is answered or refused, it does not crash the store
    T("C17_ListDoesNotCrash", ~(Len(o.err) >= 5 /\ SubSeq(o.err, 1, 5) = "panic"))
    \cup T("C17_CursorAccepted", o.hasNext => o.decoded)
    \cup T("C17_CursorStandsForSameQuery", o.decoded => o.sameQuery)
    \cup T("C17_CursorKeepsOptions", o.decoded => o.sameOption)
    \cup T("Conf_FilterAccepted", o.accepted)
    \cup T("Conf_NextHandedOut", o.accepted => o.hasNext)

OInit == l = 0 /\ viol = {} /\ cnt = [n \in Names |-> 0] /\ TLCSet(1, {}) /\ TLCSet(2, [n \in Names |-> 0])
ONext ==
    /\ l < Len(Results)
    /\ l' = l + 1
    /\ LET f == Failing(Results[l + 1]) IN
       /\ cnt' = [n \in Names |-> IF n \in f THEN cnt[n] + 1 ELSE cnt[n]]
       /\ viol' = viol \cup {<<n, l + 1>> : n \in {m \in f : cnt[m] < MaxReport}}
    /\ TLCSet(1, viol') /\ TLCSet(2, cnt')
OSpec == OInit /\ [][ONext]_ovars
Post == PrintT(<<"OBS-VERDICT", TLCGet(1)>>) /\ PrintT(<<"OBS-COUNTS", TLCGet(2)>>)
=============================================================================
