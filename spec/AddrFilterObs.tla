---------------------------- MODULE AddrFilterObs ----------------------------
(* C04 verdict on address filters: TLC walks the account listings and counts    *)
(* recorded from the real Store (storeconf -mode addrfilter, statements         *)
(* evaluated by pgmini) and compares each with the set AddrFilter.tla expects.  *)
EXTENDS Integers, Sequences, FiniteSets, TLC, Json
CONSTANT ResultFile, MaxReport
Results == ndJsonDeserialize(ResultFile)
VARIABLES l, viol
ovars == <<l, viol>>
ToSet(s) == {s[i] : i \in 1..Len(s)}
Failing(r) ==
    (IF ToSet(r.listed) = ToSet(r.expect) /\ Len(r.listed) = Len(r.expect) /\ r.count = Len(r.expect) THEN {} ELSE {"C04_AddressFilter"})
    \cup (IF ToSet(r.listed) \subseteq ToSet(r.own) THEN {} ELSE {"C04_Isolation"})
    \cup (IF "gotSource" \in DOMAIN r
          THEN (IF /\ ToSet(r.gotSource) = ToSet(r.bySource) /\ Len(r.gotSource) = Len(r.bySource)
                   /\ ToSet(r.gotDestination) = ToSet(r.byDestination) /\ Len(r.gotDestination) = Len(r.byDestination)
                   /\ ToSet(r.gotAccount) = ToSet(r.byAccount) /\ Len(r.gotAccount) = Len(r.byAccount)
                   /\ r.countAccount = Len(r.byAccount)
                THEN {} ELSE {"C04_AddressFilterOnTransactions"})
          ELSE {})
OInit == l = 0 /\ viol = {} /\ TLCSet(1, {})
ONext ==
    /\ l < Len(Results)
    /\ l' = l + 1
    /\ viol' = viol \cup (IF Cardinality(viol) < MaxReport THEN {<<n, l + 1>> : n \in Failing(Results[l + 1])} ELSE {})
    /\ TLCSet(1, viol')
OSpec == OInit /\ [][ONext]_ovars
Post == PrintT(<<"OBS-VERDICT", TLCGet(1)>>)
=============================================================================
