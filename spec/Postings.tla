------------------------------ MODULE Postings ------------------------------
(* Posting-mode transactions (C09): ledger.TxToScriptData turns a list of       *)
(* postings into a script; the committed transaction must contain exactly the    *)
(* requested postings - or the request is rejected as a whole.                   *)
(*   Commit(ps, bal) = ps unchanged if folding ps in order never overdraws a      *)
(*   non-world source, otherwise rejected (no entry).                             *)
(* TLC enumerates posting lists x balance tables and emits them for the replay    *)
(* through TxToScriptData -> Commander, and through the v1 / v2 / bulk endpoints. *)
EXTENDS Integers, Sequences, FiniteSets, TLC, Json, SequencesExt

CONSTANTS MaxLen, OutFile

Accts == {"a", "b", "world"}
Assets == {"USD", "EUR"}
Amts == {0, 1, 2}
Post(s, d, as, n) == [src |-> s, dst |-> d, asset |-> as, amt |-> n]
AllPosts == {Post(s, d, as, n) : s \in Accts, d \in Accts, as \in Assets, n \in Amts}

RECURSIVE Lists(_)
Lists(n) == IF n = 0 THEN {<<>>} ELSE LET s == Lists(n - 1) IN s \cup {Append(x, p) : x \in {y \in s : Len(y) = n - 1}, p \in AllPosts}

\* balances: per account and asset
Bals == {[acc \in {"a", "b"} |-> [as \in Assets |-> IF acc = "a" /\ as = "USD" THEN x ELSE IF acc = "b" /\ as = "USD" THEN y ELSE 0]] : x \in {0, 1, 3}, y \in {0, 2}}

RECURSIVE Covered(_, _)
Covered(ps, bal) ==
    IF ps = <<>> THEN TRUE
    ELSE LET p == Head(ps)
             b1 == IF p.src = "world" THEN bal ELSE [bal EXCEPT ![p.src][p.asset] = @ - p.amt]
             b2 == IF p.dst = "world" THEN b1 ELSE [b1 EXCEPT ![p.dst][p.asset] = @ + p.amt]
         IN (p.src = "world" \/ b1[p.src][p.asset] >= 0) /\ Covered(Tail(ps), b2)

Commit(ps, bal) == IF Covered(ps, bal) THEN [ok |-> TRUE, posts |-> ps] ELSE [ok |-> FALSE, posts |-> <<>>]

\* wide lists: more than ten distinct accounts and amounts in one request (the script generated for them
\* has two-digit variable numbers): a fan-out from world, a chain, and both assets alternating
W(i) == "w" \o ToString(i)
WideBal(n) == [acc \in {"a", "b"} \cup {W(i) : i \in 1..n} |-> [as \in Assets |-> 0]]
FanOut(n) == [i \in 1..n |-> Post("world", W(i), "USD", i)]
Chain(n) == [i \in 1..n |-> Post(IF i = 1 THEN "world" ELSE W(i - 1), W(i), "USD", n + 1 - i)]
Mixed(n) == [i \in 1..n |-> Post("world", W((i % 3) + 1), IF i % 2 = 0 THEN "USD" ELSE "EUR", i)]
Short(n) == [i \in 1..n |-> Post(IF i = 1 THEN "world" ELSE W(i - 1), W(i), "USD", IF i = n THEN n ELSE n - 1)]   \* the last hop overdraws
\* two postings whose asset and amount, written one after the other, read the same (the harness binds USD -> "EUR1", EUR -> "EUR":
\* EUR1 5 / EUR 15), in both orders, and a pair that differs in the asset only
Glue == {<<Post("world", W(1), "USD", 5), Post("world", W(2), "EUR", 15)>>, <<Post("world", W(1), "EUR", 15), Post("world", W(2), "USD", 5)>>,
         <<Post("world", W(1), "USD", 15), Post("world", W(2), "EUR", 15)>>}
WideCases == {[posts |-> f, bal |-> WideBal(Len(f))] : f \in {FanOut(11), FanOut(14), Chain(11), Chain(13), Mixed(12), Short(12)} \cup Glue}

VARIABLE c
Cases == {[posts |-> ps, bal |-> b] : ps \in Lists(MaxLen) \ {<<>>}, b \in Bals} \cup WideCases
Init == c \in Cases
Next == UNCHANGED c
Spec == Init /\ [][Next]_c

\* the committed postings are the requested ones; a rejected request commits nothing
ExactOrNothing == LET r == Commit(c.posts, c.bal) IN (r.ok => r.posts = c.posts) /\ (~r.ok => r.posts = <<>>)
\* C10 (a): applying a transaction and then its reverse restores every balance
RECURSIVE Apply(_, _)
Apply(ps, bal) ==
    IF ps = <<>> THEN bal
    ELSE LET p == Head(ps)
             b1 == IF p.src = "world" THEN bal ELSE [bal EXCEPT ![p.src][p.asset] = @ - p.amt]
             b2 == IF p.dst = "world" THEN b1 ELSE [b1 EXCEPT ![p.dst][p.asset] = @ + p.amt]
         IN Apply(Tail(ps), b2)
RECURSIVE RevPosts(_)
RevPosts(ps) == IF ps = <<>> THEN <<>> ELSE Append(RevPosts(Tail(ps)), [Head(ps) EXCEPT !.src = Head(ps).dst, !.dst = Head(ps).src])
ReverseRestores == Apply(RevPosts(c.posts), Apply(c.posts, c.bal)) = c.bal

Emit == TLCGet("stats").generated >= 0 /\
        ndJsonSerialize(OutFile, SetToSeq({[posts |-> cs.posts, bal |-> cs.bal, exp |-> Commit(cs.posts, cs.bal)] : cs \in Cases}))
=============================================================================
