------------------------------ MODULE Batcher ------------------------------
(* The log batcher between the Commander and Store.InsertLogs                  *)
(* (internal/engine/utils/batching/batcher.go over utils/job/jobs.go), one     *)
(* worker as the Commander configures it.                                        *)
(*                                                                               *)
(* Appenders put an item in `pending` and signal the runner loop; the loop cuts  *)
(* a batch of at most MaxBatch items when the worker is parked or has just       *)
(* finished; the worker hands the batch to the store; when it returns the loop   *)
(* fires the callbacks of the batch (the acknowledgements) and cuts the next     *)
(* batch. One action per step of the loop's select and of the worker.            *)
(*                                                                               *)
(* C05: what reaches the store is the appended sequence, in order, each item     *)
(* once (Fifo). C06: an item is acknowledged only after the batch holding it was *)
(* stored, and exactly once (AckAfterStore, AckOnce). Liveness: every appended   *)
(* item is eventually stored (no lost wake-up).                                  *)
(*                                                                               *)
(* CutDesign = "slice" is the code; "compact" is the in-place compaction of the  *)
(* backlog that aliases the batch being handed out (a negative design).          *)
EXTENDS Integers, Sequences, FiniteSets, TLC, Json, SequencesExt

CONSTANTS MaxItems, MaxBatch, CutDesign, OutFile, MaxWord

VARIABLES pending,    \* items waiting for a batch
          nextItem,   \* items are 1, 2, 3, ... in append order
          signals,    \* appenders blocked in Runner.Next()
          parked,     \* the worker has nothing to do and the loop knows it
          jobs,       \* batch handed to the worker, not yet taken (channel of capacity 1)
          running,    \* batch the worker is storing
          done,       \* batch stored, completion not yet seen by the loop
          stored,     \* everything handed to the store, in order
          acked       \* acknowledgements fired, in order
vars == <<pending, nextItem, signals, parked, jobs, running, done, stored, acked>>

None == <<>>

\* nextBatch(): what is cut and what stays
Cut(p) ==
    IF Len(p) <= MaxBatch THEN [batch |-> p, rest |-> <<>>]
    ELSE IF CutDesign = "slice" THEN [batch |-> SubSeq(p, 1, MaxBatch), rest |-> SubSeq(p, MaxBatch + 1, Len(p))]
    ELSE \* "compact": the tail is copied over the head of the same array before the batch is read
         LET r == Len(p) - MaxBatch
             arr == [i \in 1..Len(p) |-> IF i <= r THEN p[MaxBatch + i] ELSE p[i]]
         IN [batch |-> SubSeq(arr, 1, MaxBatch), rest |-> SubSeq(arr, 1, r)]

Init == /\ pending = <<>> /\ nextItem = 1 /\ signals = 0 /\ parked = TRUE /\ jobs = None
        /\ running = None /\ done = None /\ stored = <<>> /\ acked = <<>>

AppendItem ==
    /\ nextItem <= MaxItems
    /\ pending' = Append(pending, nextItem)
    /\ nextItem' = nextItem + 1
    /\ signals' = signals + 1
    /\ UNCHANGED <<parked, jobs, running, done, stored, acked>>

\* the loop receives a signal: a parked worker gets the next batch
LoopSignal ==
    /\ signals > 0
    /\ signals' = signals - 1
    /\ IF parked /\ pending # <<>>
       THEN /\ jobs' = Cut(pending).batch /\ pending' = Cut(pending).rest /\ parked' = FALSE
       ELSE UNCHANGED <<jobs, pending, parked>>
    /\ UNCHANGED <<nextItem, running, done, stored, acked>>

WorkerTake ==
    /\ jobs # None /\ running = None /\ done = None
    /\ running' = jobs /\ jobs' = None
    /\ UNCHANGED <<pending, nextItem, signals, parked, done, stored, acked>>

\* Store.InsertLogs returns
WorkerDone ==
    /\ running # None
    /\ stored' = stored \o running
    /\ done' = running /\ running' = None
    /\ UNCHANGED <<pending, nextItem, signals, parked, jobs, acked>>

\* the loop sees the finished job: callbacks, then the next batch or park
LoopTerminated ==
    /\ done # None
    /\ acked' = acked \o done
    /\ done' = None
    /\ IF pending # <<>>
       THEN /\ jobs' = Cut(pending).batch /\ pending' = Cut(pending).rest /\ UNCHANGED parked
       ELSE /\ parked' = TRUE /\ UNCHANGED <<jobs, pending>>
    /\ UNCHANGED <<nextItem, signals, running, stored>>

Next == AppendItem \/ LoopSignal \/ WorkerTake \/ WorkerDone \/ LoopTerminated
Spec == Init /\ [][Next]_vars
FairSpec == Spec /\ WF_vars(LoopSignal) /\ WF_vars(WorkerTake) /\ WF_vars(WorkerDone) /\ WF_vars(LoopTerminated)

\* ---- properties ----------------------------------------------------------------
IsPrefixOfNaturals(s) == \A i \in 1..Len(s) : s[i] = i
Fifo == IsPrefixOfNaturals(stored)
InFlight == (IF jobs = None THEN <<>> ELSE jobs) \o (IF running = None THEN <<>> ELSE running)
\* nothing is lost or duplicated on the way: stored, then what the worker holds, then the backlog, is 1..n
NothingLost == stored \o InFlight \o pending = [i \in 1..(nextItem - 1) |-> i]
BatchBound == /\ (jobs # None => Len(jobs) \in 1..MaxBatch) /\ (running # None => Len(running) \in 1..MaxBatch)
AckAfterStore == \A i \in 1..Len(acked) : \E j \in 1..Len(stored) : stored[j] = acked[i]
AckOnce == \A i, j \in 1..Len(acked) : i # j => acked[i] # acked[j]
AcksInOrder == IsPrefixOfNaturals(acked)
AllStoredEventually == <>[](Len(stored) = nextItem - 1 /\ Len(acked) = nextItem - 1)

\* ---- schedules for the implementation --------------------------------------------
\* The harness controls two things: appending the next item ("A") and letting the store call in progress
\* return ("R"); after each it lets the loop settle. Predict runs the model on such a word, loop steps taken eagerly.
RECURSIVE Words(_)
Words(n) == IF n = 0 THEN {<<>>} ELSE LET s == Words(n - 1) IN s \cup {Append(w, x) : w \in {y \in s : Len(y) = n - 1}, x \in {"A", "R"}}

\* state: [p: pending, run: batch at the store or None, n: next item, batches: seq of batches handed to the store]
RECURSIVE Run(_, _)
Run(w, st) ==
    IF w = <<>> THEN st
    ELSE LET a == Head(w) IN
         IF a = "A" THEN
            LET p1 == Append(st.p, st.n) IN
            IF st.run = None
            THEN Run(Tail(w), [st EXCEPT !.p = Cut(p1).rest, !.run = Cut(p1).batch, !.n = @ + 1, !.batches = Append(@, Cut(p1).batch)])
            ELSE Run(Tail(w), [st EXCEPT !.p = p1, !.n = @ + 1])
         ELSE IF st.run = None THEN Run(Tail(w), st)
         ELSE IF st.p = <<>> THEN Run(Tail(w), [st EXCEPT !.run = None])
         ELSE Run(Tail(w), [st EXCEPT !.p = Cut(st.p).rest, !.run = Cut(st.p).batch, !.batches = Append(@, Cut(st.p).batch)])
\* at the end every held call is released until nothing is left
RECURSIVE Drain(_)
Drain(st) == IF st.run = None THEN st ELSE Drain(Run(<<"R">>, st))
Predict(w) == Drain(Run(w, [p |-> <<>>, run |-> None, n |-> 1, batches |-> <<>>])).batches

NumA(w) == Len(SelectSeq(w, LAMBDA x : x = "A"))
Emit == TLCGet("stats").generated >= 0 /\
        ndJsonSerialize(OutFile, SetToSeq({[word |-> w, max |-> MaxBatch, batches |-> Predict(w)] : w \in {x \in Words(MaxWord) : NumA(x) >= 1}}))
=============================================================================
