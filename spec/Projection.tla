------------------------------ MODULE Projection ------------------------------
(* C04: what the read API reports is the replay of the log.                     *)
(*                                                                               *)
(* Two descriptions of the same thing:                                           *)
(*  - Replay: a plain fold of one ledger's log entries (R* operators);           *)
(*  - the projection as the store implements it: the tables moves /              *)
(*    transactions / transactions_metadata / accounts / accounts_metadata of     *)
(*    migrations/0-init-schema.sql, maintained by the handle_log trigger and its *)
(*    functions (one operator per SQL function, same names), and the read        *)
(*    functions / queries over them (Sql* operators).                            *)
(* TLC checks, for every log sequence within the bounds, every ledger, account,  *)
(* asset and point in time, that the Sql* reads equal the R* reads, that inputs  *)
(* equal outputs per asset and that a ledger's reads do not depend on another    *)
(* ledger of the same bucket.                                                    *)
(*                                                                               *)
(* Design switches (CONSTANTS) keep the code's behaviour and its alternatives    *)
(* apart; see DESIGN.md "C04" for which are as coded:                            *)
(*   PatchLater      insert_move adds the amount to the effective volumes of the *)
(*                   rows dated after the new move                               *)
(*   ScopedReads     read functions filter on the ledger column                  *)
(*   ExistsFresh     insert_posting evaluates "account exists" before each move  *)
(*                   (as coded: once, before both upserts)                       *)
(*   EmptyIsZero     an effective-volume lookup that finds no row yields (0,0)   *)
(*                   (as coded: plpgsql SELECT INTO assigns NULL)                *)
(*   FirstPick       which row first() returns inside                            *)
(*                   get_aggregated_volumes_for_transaction: "last" | "first"    *)
(*   AcctPitStrict   account metadata revisions compared with < (as coded) or <= *)
EXTENDS Integers, Sequences, FiniteSets, TLC

CONSTANTS Ledgers, Accts, Assets, MaxDate, MaxLogs, PostingPalette,
          PatchLater, ScopedReads, ExistsFresh, EmptyIsZero, FirstPick, AcctPitStrict

VARIABLES logs, db, clock
vars == <<logs, db, clock>>

Keys == {"k1", "k2"}
NoMd == [k \in Keys |-> 0]
Merge(m, n) == [k \in Keys |-> IF n[k] # 0 THEN n[k] ELSE m[k]]      \* jsonb ||
Contains(m, n) == \A k \in Keys : n[k] # 0 => m[k] = n[k]            \* jsonb @>
Drop(m, key) == [m EXCEPT ![key] = 0]                                \* jsonb - key
One(key, val) == [k \in Keys |-> IF k = key THEN val ELSE 0]

SetMax(S) == CHOOSE x \in S : \A y \in S : y <= x
SetMin(S) == CHOOSE x \in S : \A y \in S : x <= y
RECURSIVE SumOver(_, _)
SumOver(S, f) == IF S = {} THEN 0 ELSE LET x == CHOOSE y \in S : TRUE IN f[x] + SumOver(S \ {x}, f)

NULL == <<-1, -1>>   \* the SQL NULL as a volumes pair
Zero2 == <<0, 0>>
Add2(v, isSrc, amt) ==
    IF v = NULL THEN NULL
    ELSE IF isSrc THEN <<v[1], v[2] + amt>> ELSE <<v[1] + amt, v[2]>>

\* ===================== the log and its replay ===============================
\* entries: [type |-> "tx",  id, ts, postings, md, am, date]      am : acct -> metadata written by the script
\*          [type |-> "rev", id, ts, postings, target, date]
\*          [type |-> "set" | "del", tt |-> "tx", target, md | key, date]     (target: transaction id)
\*          [type |-> "set" | "del", tt |-> "acct", acct, md | key, date]
IsMoney(e) == e.type \in {"tx", "rev"}
Visible(e, pit) == pit = 0 \/ e.date <= pit

RECURSIVE RVolPostings(_, _, _, _)
RVolPostings(v, ps, a, asset) ==
    IF ps = <<>> THEN v
    ELSE LET p == Head(ps)
             v1 == IF p.asset = asset /\ p.src = a THEN <<v[1], v[2] + p.amt>> ELSE v
             v2 == IF p.asset = asset /\ p.dst = a THEN <<v1[1] + p.amt, v1[2]>> ELSE v1
         IN RVolPostings(v2, Tail(ps), a, asset)

RECURSIVE RFold(_, _, _, _, _)
\* volumes of (a, asset) over the entries inserted ("ins") or dated ("eff") no later than pit (0 = no limit)
RFold(log, a, asset, by, pit) ==
    IF log = <<>> THEN Zero2
    ELSE LET rest == RFold(SubSeq(log, 1, Len(log) - 1), a, asset, by, pit)
             e == log[Len(log)]
             keep == pit = 0 \/ (IF by = "ins" THEN e.date <= pit ELSE e.ts <= pit)
         IN IF IsMoney(e) /\ keep THEN RVolPostings(rest, e.postings, a, asset) ELSE rest

RVolumes(log, a, asset, pit) == RFold(log, a, asset, "ins", pit)
REffVolumes(log, a, asset, pit) == RFold(log, a, asset, "eff", pit)
RBalance(log, a, asset) == LET v == RVolumes(log, a, asset, 0) IN v[1] - v[2]

\* volumes right after entry number n (by insertion) and right after it by effective date
RVolumesAfter(log, n, a, asset) == RFold(SubSeq(log, 1, n), a, asset, "ins", 0)
REffVolumesUpTo(log, n, a, asset, incl) ==
    \* entries dated before log[n], or dated the same and inserted earlier (incl: log[n] itself too)
    LET idx == {i \in 1..Len(log) : IsMoney(log[i]) /\ (log[i].ts < log[n].ts \/ (log[i].ts = log[n].ts /\ (i < n \/ (incl /\ i = n))))}
        RECURSIVE F(_)
        F(S) == IF S = {} THEN Zero2 ELSE LET i == SetMax(S) IN RVolPostings(F(S \ {i}), log[i].postings, a, asset)
    IN F(idx)
REffVolumesAfter(log, n, a, asset) == REffVolumesUpTo(log, n, a, asset, TRUE)

TxEntries(log) == {i \in 1..Len(log) : IsMoney(log[i])}
EntryOfTx(log, id) == CHOOSE i \in TxEntries(log) : log[i].id = id
RTxVisible(log, id, pit) == \E i \in TxEntries(log) : log[i].id = id /\ (pit = 0 \/ log[i].ts <= pit)
RReverted(log, id, pit) ==
    \E i \in 1..Len(log) : log[i].type = "rev" /\ log[i].target = id /\ (pit = 0 \/ log[i].ts <= pit)

RECURSIVE RTxMd(_, _, _)
RTxMd(log, id, pit) ==
    IF log = <<>> THEN NoMd
    ELSE LET rest == RTxMd(SubSeq(log, 1, Len(log) - 1), id, pit)
             e == log[Len(log)]
         IN CASE e.type = "tx" /\ e.id = id -> e.md
              [] e.type = "set" /\ e.tt = "tx" /\ e.target = id /\ Visible(e, pit) -> Merge(rest, e.md)
              [] e.type = "del" /\ e.tt = "tx" /\ e.target = id /\ Visible(e, pit) -> Drop(rest, e.key)
              [] OTHER -> rest

RECURSIVE RAcctMd(_, _, _)
RAcctMd(log, a, pit) ==
    IF log = <<>> THEN NoMd
    ELSE LET rest == RAcctMd(SubSeq(log, 1, Len(log) - 1), a, pit)
             e == log[Len(log)]
         IN CASE e.type = "tx" /\ Visible(e, pit) -> Merge(rest, e.am[a])
              [] e.type = "set" /\ e.tt = "acct" /\ e.acct = a /\ Visible(e, pit) -> Merge(rest, e.md)
              [] e.type = "del" /\ e.tt = "acct" /\ e.acct = a /\ Visible(e, pit) -> Drop(rest, e.key)
              [] OTHER -> rest

RangeOf(sq) == {sq[i] : i \in 1..Len(sq)}
RTouched(log) == UNION {UNION {{p.src, p.dst} : p \in RangeOf(log[i].postings)} : i \in TxEntries(log)}
RAccounts(log) ==
    RTouched(log) \cup {log[i].acct : i \in {j \in 1..Len(log) : log[j].type = "set" /\ log[j].tt = "acct"}}
                  \cup {a \in Accts : \E i \in 1..Len(log) : log[i].type = "tx" /\ log[i].am[a] # NoMd}
RAggregated(log, asset, pit) ==
    LET I == [a \in Accts |-> RVolumes(log, a, asset, pit)[1]]
        O == [a \in Accts |-> RVolumes(log, a, asset, pit)[2]]
    IN <<SumOver(Accts, I), SumOver(Accts, O)>>
RCountTx(log) == Cardinality(TxEntries(log))

\* ===================== the projection as implemented ========================
EmptyDb == [moves |-> <<>>, txs |-> <<>>, txmeta |-> <<>>, accts |-> <<>>, acctmeta |-> <<>>]

AcctSeq(d, L, a) ==
    LET S == {i \in 1..Len(d.accts) : d.accts[i].ledger = L /\ d.accts[i].addr = a}
    IN IF S = {} THEN 0 ELSE SetMax(S)
LastRev(tbl, field, sq) ==
    LET S == {i \in 1..Len(tbl) : tbl[i][field] = sq} IN IF S = {} THEN 0 ELSE SetMax({tbl[i].rev : i \in S})

\* upsert_account + insert_account / update_account triggers
upsert_account(d, L, a, md, date) ==
    LET i == AcctSeq(d, L, a) IN
    IF i = 0 THEN
        [d EXCEPT !.accts = Append(@, [ledger |-> L, addr |-> a, ins |-> date, upd |-> date, md |-> md]),
                  !.acctmeta = Append(@, [aseq |-> Len(d.accts) + 1, rev |-> 1, date |-> date, md |-> md])]
    ELSE IF Contains(d.accts[i].md, md) THEN d
    ELSE LET nm == Merge(d.accts[i].md, md) IN
        [d EXCEPT !.accts[i].md = nm, !.accts[i].upd = date,
                  !.acctmeta = Append(@, [aseq |-> i, rev |-> LastRev(d.acctmeta, "aseq", i) + 1, date |-> date, md |-> nm])]

delete_account_metadata(d, L, a, key, date) ==
    LET i == AcctSeq(d, L, a) IN
    IF i = 0 THEN d
    ELSE LET nm == Drop(d.accts[i].md, key) IN
        [d EXCEPT !.accts[i].md = nm, !.accts[i].upd = date,
                  !.acctmeta = Append(@, [aseq |-> i, rev |-> LastRev(d.acctmeta, "aseq", i) + 1, date |-> date, md |-> nm])]

TxSeq(d, L, id) ==
    LET S == {i \in 1..Len(d.txs) : d.txs[i].ledger = L /\ d.txs[i].id = id} IN IF S = {} THEN 0 ELSE SetMax(S)

\* any UPDATE of a transactions row fires update_transaction_metadata_history
TouchTx(d, i, row) ==
    [d EXCEPT !.txs[i] = row,
              !.txmeta = Append(@, [tseq |-> i, rev |-> LastRev(d.txmeta, "tseq", i) + 1, date |-> row.upd, md |-> row.md])]

update_transaction_metadata(d, L, id, md, date) ==
    LET i == TxSeq(d, L, id) IN
    IF i = 0 THEN d ELSE TouchTx(d, i, [d.txs[i] EXCEPT !.md = Merge(@, md), !.upd = date])
delete_transaction_metadata(d, L, id, key, date) ==
    LET i == TxSeq(d, L, id) IN
    IF i = 0 THEN d ELSE TouchTx(d, i, [d.txs[i] EXCEPT !.md = Drop(@, key), !.upd = date])
revert_transaction(d, L, id, date) ==
    LET i == TxSeq(d, L, id) IN
    IF i = 0 THEN d ELSE TouchTx(d, i, [d.txs[i] EXCEPT !.rev = date])

\* order by effective_date desc, seq desc limit 1
LatestEff(d, S) == LET e == SetMax({d.moves[i].eff : i \in S}) IN SetMax({i \in S : d.moves[i].eff = e})

insert_move(d, tseq, L, ins, eff, a, asset, amt, isSrc, exists) ==
    LET aseq == AcctSeq(d, L, a)
        mine == {i \in 1..Len(d.moves) : d.moves[i].aseq = aseq /\ d.moves[i].asset = asset}
        before == {i \in mine : d.moves[i].eff <= eff}
        pcv0 == IF exists /\ mine # {} THEN d.moves[SetMax(mine)].pcv ELSE Zero2
        pcev0 == IF exists /\ mine # {}
                 THEN (IF before # {} THEN d.moves[LatestEff(d, before)].pcev ELSE IF EmptyIsZero THEN Zero2 ELSE NULL)
                 ELSE Zero2
        row == [ledger |-> L, tseq |-> tseq, aseq |-> aseq, addr |-> a, asset |-> asset, amt |-> amt, src |-> isSrc,
                ins |-> ins, eff |-> eff, pcv |-> Add2(pcv0, isSrc, amt), pcev |-> Add2(pcev0, isSrc, amt)]
        newseq == Len(d.moves) + 1
        patched == [i \in 1..Len(d.moves) |->
                     IF exists /\ PatchLater /\ i \in mine /\ d.moves[i].eff > eff
                     THEN [d.moves[i] EXCEPT !.pcev = Add2(@, isSrc, amt)] ELSE d.moves[i]]
    IN [d EXCEPT !.moves = Append(patched, row)]

insert_posting(d, tseq, L, ins, eff, p, am) ==
    LET srcExists == AcctSeq(d, L, p.src) # 0
        dstExists == AcctSeq(d, L, p.dst) # 0
        d1 == upsert_account(d, L, p.src, am[p.src], ins)
        d2 == upsert_account(d1, L, p.dst, am[p.dst], ins)
        d3 == insert_move(d2, tseq, L, ins, eff, p.src, p.asset, p.amt, TRUE, IF ExistsFresh THEN TRUE ELSE srcExists)
        \* "fresh": the destination exists as soon as a move of this posting was written for it
        dstE == IF ExistsFresh THEN TRUE ELSE dstExists
    IN insert_move(d3, tseq, L, ins, eff, p.dst, p.asset, p.amt, FALSE, dstE)

RECURSIVE InsertPostings(_, _, _, _, _, _, _)
InsertPostings(d, tseq, L, ins, eff, ps, am) ==
    IF ps = <<>> THEN d
    ELSE InsertPostings(insert_posting(d, tseq, L, ins, eff, Head(ps), am), tseq, L, ins, eff, Tail(ps), am)

NoAm == [a \in Accts |-> NoMd]
insert_transaction(d, L, e, date, am) ==
    LET tseq == Len(d.txs) + 1
        \* insert into transactions + insert_transaction trigger (revision 1) ...
        d1 == [d EXCEPT !.txs = Append(@, [ledger |-> L, id |-> e.id, ts |-> e.ts, upd |-> e.ts, rev |-> 0, md |-> e.md, postings |-> e.postings]),
                        !.txmeta = Append(@, [tseq |-> tseq, rev |-> 1, date |-> e.ts, md |-> e.md])]
        d2 == InsertPostings(d1, tseq, L, date, e.ts, e.postings, am)
        \* ... and the explicit revision 0
    IN [d2 EXCEPT !.txmeta = Append(@, [tseq |-> tseq, rev |-> 0, date |-> e.ts, md |-> e.md])]

RECURSIVE UpsertAll(_, _, _, _, _)
UpsertAll(d, L, S, am, date) ==
    IF S = {} THEN d
    ELSE LET a == CHOOSE x \in S : TRUE IN UpsertAll(upsert_account(d, L, a, am[a], date), L, S \ {a}, am, date)

handle_log(d, L, e) ==
    CASE e.type = "tx" ->
            LET d1 == insert_transaction(d, L, e, e.date, e.am)
            IN UpsertAll(d1, L, {a \in Accts : e.am[a] # NoMd}, e.am, e.ts)
      [] e.type = "rev" ->
            revert_transaction(insert_transaction(d, L, [e EXCEPT !.md = NoMd], e.date, NoAm), L, e.target, e.ts)
      [] e.type = "set" ->
            IF e.tt = "tx" THEN update_transaction_metadata(d, L, e.target, e.md, e.date)
            ELSE upsert_account(d, L, e.acct, e.md, e.date)
      [] e.type = "del" ->
            IF e.tt = "tx" THEN delete_transaction_metadata(d, L, e.target, e.key, e.date)
            ELSE delete_account_metadata(d, L, e.acct, e.key, e.date)

\* ---- reads ------------------------------------------------------------------
InLedger(row, L) == ~ScopedReads \/ row.ledger = L
Nz(v) == v

\* get_all_account_volumes / get_account_aggregated_volumes
SqlVolumes(d, L, a, asset, pit) ==
    LET S == {i \in 1..Len(d.moves) : d.moves[i].addr = a /\ d.moves[i].asset = asset /\ InLedger(d.moves[i], L)
                                       /\ (pit = 0 \/ d.moves[i].ins <= pit)}
    IN IF S = {} THEN Zero2 ELSE d.moves[SetMax(S)].pcv
\* get_all_account_effective_volumes
SqlEffVolumes(d, L, a, asset, pit) ==
    LET S == {i \in 1..Len(d.moves) : d.moves[i].addr = a /\ d.moves[i].asset = asset /\ InLedger(d.moves[i], L)
                                       /\ (pit = 0 \/ d.moves[i].eff <= pit)}
    IN IF S = {} THEN Zero2 ELSE Nz(d.moves[LatestEff(d, S)].pcev)
\* get_account_balance
SqlBalance(d, L, a, asset) == LET v == SqlVolumes(d, L, a, asset, 0) IN v[1] - v[2]
\* GetAggregatedBalances: distinct on (account, asset) ... order by seq desc, summed per asset
SqlAggregated(d, L, asset, pit) ==
    LET I == [a \in Accts |-> SqlVolumes(d, L, a, asset, pit)[1]]
        O == [a \in Accts |-> SqlVolumes(d, L, a, asset, pit)[2]]
    IN <<SumOver(Accts, I), SumOver(Accts, O)>>
\* get_aggregated_volumes_for_transaction / ..._effective_...
SqlTxVolumes(d, L, tseq, a, asset, eff) ==
    LET S == {i \in 1..Len(d.moves) : d.moves[i].tseq = tseq /\ d.moves[i].addr = a /\ d.moves[i].asset = asset /\ InLedger(d.moves[i], L)}
        i == IF FirstPick = "last" THEN SetMax(S) ELSE SetMin(S)
    IN IF S = {} THEN Zero2 ELSE IF eff THEN Nz(d.moves[i].pcev) ELSE d.moves[i].pcv
SqlTxVisible(d, L, id, pit) == LET i == TxSeq(d, L, id) IN i # 0 /\ (pit = 0 \/ d.txs[i].ts <= pit)
SqlReverted(d, L, id, pit) == LET i == TxSeq(d, L, id) IN d.txs[i].rev # 0 /\ (pit = 0 \/ d.txs[i].rev <= pit)
SqlTxMd(d, L, id, pit) ==
    LET i == TxSeq(d, L, id)
        S == {j \in 1..Len(d.txmeta) : d.txmeta[j].tseq = i /\ d.txmeta[j].date <= pit}
        r == SetMax({d.txmeta[j].rev : j \in S})
    IN IF pit = 0 THEN d.txs[i].md
       ELSE IF S = {} THEN NoMd ELSE d.txmeta[CHOOSE j \in S : d.txmeta[j].rev = r].md
SqlAcctMd(d, L, a, pit) ==
    LET i == AcctSeq(d, L, a)
        S == {j \in 1..Len(d.acctmeta) : d.acctmeta[j].aseq = i
                  /\ (IF AcctPitStrict THEN d.acctmeta[j].date < pit ELSE d.acctmeta[j].date <= pit)}
        r == SetMax({d.acctmeta[j].rev : j \in S})
    IN IF i = 0 THEN NoMd
       ELSE IF pit = 0 THEN d.accts[i].md
       ELSE IF S = {} THEN NoMd ELSE d.acctmeta[CHOOSE j \in S : d.acctmeta[j].rev = r].md
SqlCountTx(d, L) == Cardinality({i \in 1..Len(d.txs) : InLedger(d.txs[i], L)})
SqlAccounts(d, L) == {d.accts[i].addr : i \in {j \in 1..Len(d.accts) : InLedger(d.accts[j], L)}}

\* ===================== behaviours ============================================
Pits == 0..(MaxDate + 1)
NextId(log) == Cardinality(TxEntries(log))
Reversed(ps) == [i \in 1..Len(ps) |-> [src |-> ps[Len(ps) + 1 - i].dst, dst |-> ps[Len(ps) + 1 - i].src,
                                        asset |-> ps[Len(ps) + 1 - i].asset, amt |-> ps[Len(ps) + 1 - i].amt]]

AmPalette == {NoAm} \cup {[a \in Accts |-> IF a = b THEN One("k1", 2) ELSE NoMd] : b \in Accts \ {"world"}}

Candidates(L) ==
    LET log == logs[L] IN
    \* script-written account metadata is dated with the transaction's timestamp by handle_log: kept to
    \* transactions stamped "now" so that both descriptions date it the same
    {e \in {[type |-> "tx", id |-> NextId(log), ts |-> ts, postings |-> ps, md |-> md, am |-> am, date |-> clock]
              : ts \in 1..MaxDate, ps \in PostingPalette, md \in {NoMd, One("k1", 1)}, am \in AmPalette}
        : e.am = NoAm \/ e.ts = clock}
    \cup {[type |-> "rev", id |-> NextId(log), ts |-> ts, postings |-> Reversed(log[i].postings), target |-> log[i].id, md |-> NoMd, date |-> clock]
        : ts \in {t \in 1..MaxDate : t >= clock},
          i \in {j \in TxEntries(log) : ~RReverted(log, log[j].id, 0)}}
    \cup {[type |-> "set", tt |-> "tx", target |-> log[i].id, md |-> One(k, 1), date |-> clock] : i \in TxEntries(log), k \in Keys}
    \cup {[type |-> "del", tt |-> "tx", target |-> log[i].id, key |-> "k1", date |-> clock] : i \in TxEntries(log)}
    \cup {[type |-> "set", tt |-> "acct", acct |-> a, md |-> One(k, 1), date |-> clock] : a \in Accts \ {"world"}, k \in Keys}
    \cup {[type |-> "del", tt |-> "acct", acct |-> a, key |-> "k1", date |-> clock] : a \in Accts \ {"world"}}

Init == logs = [L \in Ledgers |-> <<>>] /\ db = EmptyDb /\ clock = 1
Insert(L, e) ==
    /\ clock <= MaxLogs
    /\ logs' = [logs EXCEPT ![L] = Append(@, e)]
    /\ db' = handle_log(db, L, e)
    /\ clock' = clock + 1
Next == \E L \in Ledgers : \E e \in Candidates(L) : Insert(L, e)
Spec == Init /\ [][Next]_vars

\* ===================== properties ============================================
VolumesMatch ==
    \A L \in Ledgers, a \in Accts, s \in Assets, pit \in Pits :
        SqlVolumes(db, L, a, s, pit) = RVolumes(logs[L], a, s, pit)
EffVolumesMatch ==
    \A L \in Ledgers, a \in Accts, s \in Assets, pit \in Pits :
        SqlEffVolumes(db, L, a, s, pit) = REffVolumes(logs[L], a, s, pit)
BalanceMatches ==
    \A L \in Ledgers, a \in Accts, s \in Assets : SqlBalance(db, L, a, s) = RBalance(logs[L], a, s)
AggregatedMatches ==
    \A L \in Ledgers, s \in Assets, pit \in Pits : SqlAggregated(db, L, s, pit) = RAggregated(logs[L], s, pit)
TxVolumesMatch ==
    \A L \in Ledgers : \A n \in TxEntries(logs[L]) : \A a \in Accts, s \in Assets :
        LET e == logs[L][n]
            tseq == TxSeq(db, L, e.id)
            touches == \E j \in 1..Len(e.postings) : e.postings[j].asset = s /\ a \in {e.postings[j].src, e.postings[j].dst}
        IN touches =>
            /\ SqlTxVolumes(db, L, tseq, a, s, FALSE) = RVolumesAfter(logs[L], n, a, s)
            /\ SqlTxVolumes(db, L, tseq, a, s, TRUE) = REffVolumesAfter(logs[L], n, a, s)
TxRowsMatch ==
    \A L \in Ledgers : \A n \in TxEntries(logs[L]) : \A pit \in Pits :
        LET id == logs[L][n].id IN
        /\ SqlTxVisible(db, L, id, pit) = RTxVisible(logs[L], id, pit)
        /\ RTxVisible(logs[L], id, pit) =>
              /\ SqlReverted(db, L, id, pit) = RReverted(logs[L], id, pit)
              /\ SqlTxMd(db, L, id, pit) = RTxMd(logs[L], id, pit)
AcctMdMatches ==
    \A L \in Ledgers, a \in Accts, pit \in Pits : SqlAcctMd(db, L, a, pit) = RAcctMd(logs[L], a, pit)
CountsMatch ==
    \A L \in Ledgers : /\ SqlCountTx(db, L) = RCountTx(logs[L])
                       /\ SqlAccounts(db, L) = RAccounts(logs[L])
InputsEqualOutputs ==
    \A L \in Ledgers, s \in Assets, pit \in Pits :
        LET v == SqlAggregated(db, L, s, pit) IN v[1] = v[2]
\* isolation is the conjunction above read ledger by ledger: every read of L is a function of logs[L] alone
ReadsAreReplay ==
    /\ VolumesMatch /\ EffVolumesMatch /\ BalanceMatches /\ AggregatedMatches /\ TxVolumesMatch
    /\ TxRowsMatch /\ AcctMdMatches /\ CountsMatch
=============================================================================
