------------------------------ MODULE LockObs ------------------------------
(* Verdict on the implementation for C15: the predicates of LockProps.tla     *)
(* evaluated by TLC on the values recorded from the real DefaultLocker.       *)
(* Nothing here depends on Lock.tla's transition relation: the walk is        *)
(* unguarded, so a run that left the specification is still judged.           *)
(*   holders  = requests whose Lock call was granted (directly or by a        *)
(*              recheck) and that neither released nor gave up (a Lock call   *)
(*              that returns an error holds nothing, by contract)             *)
(*   rl/wl/queue = the lock tables projected after the step                   *)
EXTENDS LockProps, Json, TLC, SequencesExt

CONSTANT TraceFile
Trace == ndJsonDeserialize(TraceFile)

VARIABLES l,      \* number of consumed lines
          acc,    \* population of the current execution
          h       \* holders according to the observed events

ovars == <<l, acc, h>>

Has(rec, f) == f \in DOMAIN rec
ConvAcc(j) == [r \in DOMAIN j |-> [read |-> ToSet(j[r].read), write |-> ToSet(j[r].write)]]

OInit == l = 0 /\ acc = <<>> /\ h = {}

ONext ==
    /\ l < Len(Trace)
    /\ l' = l + 1
    /\ LET e == Trace[l + 1] IN
       IF e.ev = "reset"
       THEN acc' = ConvAcc(e.acc) /\ h' = {}
       ELSE /\ acc' = acc
            /\ LET g == IF Has(e, "granted") THEN ToSet(e.granted) ELSE {} IN
               h' = CASE e.ev = "Request" /\ e.out = "acquired" -> h \cup {e.r}
                      [] e.ev = "Release"                       -> (h \ {e.r}) \cup g
                      [] e.ev = "CancelSeen"                    -> (h \ {e.r}) \cup g
                      [] OTHER                                  -> h \cup g

OSpec == OInit /\ [][ONext]_ovars

Line == Trace[l]
HasTables == l > 0 /\ Has(Line, "rl") /\ Has(Line, "wl")
Accts == IF l > 0 /\ Has(Line, "rl") THEN DOMAIN Line.rl ELSE {}

\* no two holders overlap when either holds a shared account for writing
ObsExclusion == l > 0 => Exclusive(h, acc)
\* a request abandoned through cancellation leaves no lock behind; holders hold theirs
ObsNoLeak == HasTables => TableMatches(Line.rl, ToSet(Line.wl), h, acc, Accts)
\* every pending request compatible with what is held has been granted
ObsProgress == (HasTables /\ Has(Line, "queue")) => NoCompatibleWaiter(Line.queue, Line.rl, ToSet(Line.wl), acc)
\* free-running executions: every Lock call completed once all holders released
ObsNoHang == (l > 0 /\ Has(Line, "hung")) => ~Line.hung
=============================================================================
