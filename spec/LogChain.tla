------------------------------ MODULE LogChain ------------------------------
(* The hash chain of a ledger's log and its stored form (C13, and the chain law  *)
(* used by C05). A log entry has a kind, a target and value classes; the hash of  *)
(* entry i is H(hash of entry i-1, content of entry i) with H injective            *)
(* (uninterpreted: modelled as the pair). Stored = Encode(entry); a reader gets    *)
(* Decode(Encode(entry)). The property: Decode o Encode is the identity on content *)
(* and re-verification from the decoded content accepts every stored chain; a      *)
(* chain whose entry was altered or re-ordered is rejected.                        *)
(* TLC enumerates histories (every kind x target x value class, every chain        *)
(* length up to the bound) and emits them; the harness instantiates them with real *)
(* ledger.Log values from value pools and both real stored forms.                  *)
EXTENDS Naturals, Sequences, FiniteSets, TLC, Json, SequencesExt

CONSTANTS MaxLen, OutFile

Kinds == {"NEW_TRANSACTION", "REVERTED_TRANSACTION", "SET_METADATA/ACCOUNT", "SET_METADATA/TRANSACTION",
          "DELETE_METADATA/ACCOUNT", "DELETE_METADATA/TRANSACTION"}
TimeClasses == {"micro", "far-past", "far-future", "offset", "year-9999-edge"}
AmountClasses == {"small", "over-64-bit", "2^200"}
MetaClasses == {"empty", "unicode", "quotes-and-escapes"}
KeyClasses == {"none", "255-chars", "escapes"}
IdClasses == {"small", "over-2^53"}

Entries == [kind : Kinds, time : TimeClasses, amount : AmountClasses, meta : MetaClasses, key : KeyClasses, id : IdClasses]
\* only the value classes that matter for a kind (the others are fixed), to keep the enumeration meaningful.
\* For the DELETE_METADATA kinds the meta class is the shape of the DELETED KEY (plain / unicode / needing JSON escapes);
\* the key class is the shape of the idempotency key and of the reference.
Relevant(e) ==
    \* the last instants of year 9999 as the API accepts them (rounded to microseconds): a transaction timestamp only,
    \* the date of a log entry is produced by the engine
    /\ (e.time = "year-9999-edge" => e.kind \in {"NEW_TRANSACTION", "REVERTED_TRANSACTION"})
    /\ (e.kind \notin {"NEW_TRANSACTION", "REVERTED_TRANSACTION"} => e.amount = "small")
    /\ (e.kind \notin {"SET_METADATA/TRANSACTION", "DELETE_METADATA/TRANSACTION", "REVERTED_TRANSACTION"} => e.id = "small")
Pool == {e \in Entries : Relevant(e)}

\* ---- the chain law -----------------------------------------------------------------
H(prev, content) == <<prev, content>>
RECURSIVE Chain(_)
Chain(h) == IF h = <<>> THEN <<>>
            ELSE LET c == Chain(SubSeq(h, 1, Len(h) - 1))
                     prev == IF c = <<>> THEN <<>> ELSE c[Len(c)].hash
                 IN Append(c, [id |-> Len(h) - 1, content |-> h[Len(h)], hash |-> H(prev, h[Len(h)])])
Verify(ch) == \A i \in 1..Len(ch) : ch[i].id = i - 1 /\ ch[i].hash = H(IF i = 1 THEN <<>> ELSE ch[i - 1].hash, ch[i].content)

VARIABLE h
RECURSIVE Hist(_)
Hist(n) == IF n = 0 THEN {<<>>} ELSE LET s == Hist(n - 1) IN s \cup {Append(x, e) : x \in {y \in s : Len(y) = n - 1}, e \in Pool}
\* length 1: the whole pool; longer chains: over a representative sub-pool (one entry per kind)
Rep == {e \in Pool : e.time = "micro" /\ e.amount = "small" /\ e.meta = "unicode" /\ e.key = "none" /\ e.id = "small"}
RECURSIVE HistRep(_)
HistRep(n) == IF n = 0 THEN {<<>>} ELSE LET s == HistRep(n - 1) IN s \cup {Append(x, e) : x \in {y \in s : Len(y) = n - 1}, e \in Rep}
Histories == {<<e>> : e \in Pool} \cup (HistRep(MaxLen) \ {<<>>})

Init == h \in Histories
Next == UNCHANGED h
Spec == Init /\ [][Next]_h

ChainVerifies == Verify(Chain(h))
\* altering the content of any entry is detected at that entry
TamperDetected == \A i \in 1..Len(h) : \A e \in Rep : e # h[i] =>
                    ~Verify([Chain(h) EXCEPT ![i].content = e])
\* swapping two adjacent entries is detected
SwapDetected == \A i \in 1..(Len(h) - 1) : h[i] # h[i + 1] =>
                    ~Verify([Chain(h) EXCEPT ![i] = Chain(h)[i + 1], ![i + 1] = Chain(h)[i]])

Emit == TLCGet("stats").generated >= 0 /\ ndJsonSerialize(OutFile, SetToSeq({[entries |-> x] : x \in Histories}))
=============================================================================
