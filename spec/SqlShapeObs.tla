---------------------------- MODULE SqlShapeObs ----------------------------
(* C20: TLC evaluates SqlShape.tla's Skeleton on statements recorded from the    *)
(* real Store (a seeded sample of the recorded lines, plus every line the Go      *)
(* transcription of the automaton flagged): the statement for the client's value  *)
(* and the statement for its harmless twin must have the same structure; the      *)
(* transcription must agree with TLC on every sampled line.                       *)
EXTENDS SqlShape
CONSTANT ResultFile, MaxReport
Results == ndJsonDeserialize(ResultFile)
VARIABLES l, viol, cnt
ovars == <<l, viol, cnt, v>>
Names == {"C20_SameStructure", "Conf_TranscriptionAgrees"}
Failing(r) ==
    LET same == SameStructure(r.sql, r.base) IN
    (IF same THEN {} ELSE {"C20_SameStructure"}) \cup (IF same = r.goSame THEN {} ELSE {"Conf_TranscriptionAgrees"})
OInit == v = <<>> /\ l = 0 /\ viol = {} /\ cnt = [n \in Names |-> 0] /\ TLCSet(1, {}) /\ TLCSet(2, [n \in Names |-> 0])
ONext ==
    /\ l < Len(Results)
    /\ l' = l + 1
    /\ LET f == Failing(Results[l + 1]) IN
       /\ cnt' = [n \in Names |-> IF n \in f THEN cnt[n] + 1 ELSE cnt[n]]
       /\ viol' = viol \cup {<<n, l + 1>> : n \in {m \in f : cnt[m] < MaxReport}}
    /\ TLCSet(1, viol') /\ TLCSet(2, cnt')
    /\ UNCHANGED v
OSpec == OInit /\ [][ONext]_ovars
Post == PrintT(<<"OBS-VERDICT", TLCGet(1)>>) /\ PrintT(<<"OBS-COUNTS", TLCGet(2)>>)
=============================================================================
