------------------------------ MODULE Lock ------------------------------
(* Specification of command.DefaultLocker (internal/engine/command/lock.go) *)
(* at the grain of its critical sections:                                    *)
(*   Request(r)    Lock(): mu held: tryLock, else append to the intent list  *)
(*   Release(r)    the Unlock closure: mu held: unlock + recheck scan        *)
(*   Observe(r)    the waiter's select takes <-intent.acquired               *)
(*   Cancel(r)     the caller's context is cancelled (environment)           *)
(*   CancelSeen(r) the waiter's select takes <-ctx.Done()                    *)
(* When a grant and a cancellation coincide (st = "granted" /\ cancelled)    *)
(* both Observe and CancelSeen are enabled, as in Go's select.               *)
EXTENDS LockProps, TLC

CONSTANTS Req,           \* request identifiers
          Acct,          \* account names
          CancelDesign,  \* "leak": cancel path returns without giving back a grant (pinned tree)
                         \* "release": cancel path releases a concurrent grant and rechecks
          MaxCancel      \* bound on the number of cancellations per behaviour

VARIABLES acc,        \* [Req -> [read, write]] the population (chosen in Init)
          rl,         \* [Acct -> Nat]   readLocks counters
          wl,         \* SUBSET Acct     writeLocks
          queue,      \* Seq(Req)        intents list, front first
          st,         \* [Req -> {"idle","waiting","granted","holding","released","failed"}]
          cancelled   \* [Req -> BOOLEAN]

vars == <<acc, rl, wl, queue, st, cancelled>>

Populations == [Req -> [read : SUBSET Acct, write : SUBSET Acct]]

Init ==
    /\ acc \in {p \in Populations : \A r \in Req : Touches(p[r]) # {}}
    /\ rl = [a \in Acct |-> 0]
    /\ wl = {}
    /\ queue = <<>>
    /\ st = [r \in Req |-> "idle"]
    /\ cancelled = [r \in Req |-> FALSE]

Take(rlc, a)  == [x \in Acct |-> IF x \in a.read THEN rlc[x] + 1 ELSE rlc[x]]
Drop(rlc, a)  == [x \in Acct |-> IF x \in a.read THEN rlc[x] - 1 ELSE rlc[x]]

RECURSIVE Scan(_, _, _)
\* recheck(): walk the intent list front to back, grant every compatible intent
Scan(q, rlc, wlc) ==
    IF q = <<>> THEN [rl |-> rlc, wl |-> wlc, granted |-> {}, rest |-> <<>>]
    ELSE LET h == Head(q) IN
         IF CompatibleWith(acc[h], rlc, wlc)
         THEN LET t == Scan(Tail(q), Take(rlc, acc[h]), wlc \cup acc[h].write)
              IN  [t EXCEPT !.granted = @ \cup {h}]
         ELSE LET t == Scan(Tail(q), rlc, wlc)
              IN  [t EXCEPT !.rest = <<h>> \o @]

Request(r) ==
    /\ st[r] = "idle"
    /\ IF CompatibleWith(acc[r], rl, wl)
       THEN /\ rl' = Take(rl, acc[r])
            /\ wl' = wl \cup acc[r].write
            /\ st' = [st EXCEPT ![r] = "holding"]
            /\ UNCHANGED queue
       ELSE /\ queue' = Append(queue, r)
            /\ st' = [st EXCEPT ![r] = "waiting"]
            /\ UNCHANGED <<rl, wl>>
    /\ UNCHANGED <<acc, cancelled>>

\* unlock of r's accounts followed by the recheck scan, one critical section
GiveBack(r, newst) ==
    LET rl1 == Drop(rl, acc[r])
        wl1 == wl \ acc[r].write
        s   == Scan(queue, rl1, wl1)
    IN  /\ rl' = s.rl
        /\ wl' = s.wl
        /\ queue' = s.rest
        /\ st' = [x \in Req |-> IF x = r THEN newst
                                ELSE IF x \in s.granted THEN "granted" ELSE st[x]]

Release(r) ==
    /\ st[r] = "holding"
    /\ GiveBack(r, "released")
    /\ UNCHANGED <<acc, cancelled>>

Observe(r) ==
    /\ st[r] = "granted"
    /\ st' = [st EXCEPT ![r] = "holding"]
    /\ UNCHANGED <<acc, rl, wl, queue, cancelled>>

Cancel(r) ==
    /\ ~cancelled[r]
    /\ st[r] \in {"idle", "waiting", "granted"}
    /\ Cardinality({x \in Req : cancelled[x]}) < MaxCancel
    /\ cancelled' = [cancelled EXCEPT ![r] = TRUE]
    /\ UNCHANGED <<acc, rl, wl, queue, st>>

RemoveFromQueue(r) == SelectSeq(queue, LAMBDA x : x # r)

CancelSeen(r) ==
    /\ cancelled[r]
    /\ \/ /\ st[r] = "waiting"
          /\ queue' = RemoveFromQueue(r)
          /\ st' = [st EXCEPT ![r] = "failed"]
          /\ UNCHANGED <<rl, wl>>
       \/ /\ st[r] = "granted"
          /\ IF CancelDesign = "release"
             THEN GiveBack(r, "failed")
             ELSE /\ st' = [st EXCEPT ![r] = "failed"]
                  /\ UNCHANGED <<rl, wl, queue>>
    /\ UNCHANGED <<acc, cancelled>>

Next == \E r \in Req : Request(r) \/ Release(r) \/ Observe(r) \/ Cancel(r) \/ CancelSeen(r)

Fairness ==
    /\ \A r \in Req : WF_vars(Release(r))
    /\ \A r \in Req : WF_vars(Observe(r) \/ CancelSeen(r))

Spec     == Init /\ [][Next]_vars
FairSpec == Spec /\ Fairness

-----------------------------------------------------------------------------
Holders == {r \in Req : st[r] \in {"granted", "holding"}}

TypeOK ==
    /\ rl \in [Acct -> Nat] /\ wl \subseteq Acct
    /\ st \in [Req -> {"idle", "waiting", "granted", "holding", "released", "failed"}]

\* C15, safety half
Exclusion   == Exclusive(Holders, acc)
NoLeak      == TableMatches(rl, wl, Holders, acc, Acct)
Progress    == NoCompatibleWaiter(queue, rl, wl, acc)
QueueIsWaiters == {queue[i] : i \in 1..Len(queue)} = {r \in Req : st[r] = "waiting"}

\* C15, liveness half: a waiting request is eventually granted or (if its caller
\* gave up) fails; holders are assumed to release (WF on Release)
EventuallyServed == \A r \in Req : (st[r] = "waiting") ~> (st[r] \in {"holding", "failed", "released"})
=========================================================================
