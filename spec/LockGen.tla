----------------------------- MODULE LockGen -----------------------------
(* Behaviour generator for Lock.tla: carries the action history and writes  *)
(* it as NDJSON (first line: the population, then one line per action) when *)
(* the behaviour is complete. Run with tlc -simulate; one file per behaviour *)
EXTENDS Lock, Json, TLCExt

CONSTANTS OutDir, MaxLen

VARIABLES hist, emitted

gvars == <<vars, hist, emitted>>

Log(a, r) == hist' = Append(hist, [a |-> a, r |-> r]) /\ UNCHANGED emitted

Interesting(p) == \E r1, r2 \in Req : r1 # r2 /\ Conflict(p[r1], p[r2])

GenInit == Init /\ Interesting(acc) /\ hist = <<>> /\ emitted = FALSE

Quiet == \A r \in Req : st[r] \in {"released", "failed"}

Step ==
    /\ ~emitted
    /\ Len(hist) < MaxLen
    /\ \E r \in Req :
         \/ Request(r) /\ Log("Request", r)
         \/ Release(r) /\ Log("Release", r)
         \/ Observe(r) /\ Log("Observe", r)
         \/ Cancel(r) /\ Log("Cancel", r)
         \/ CancelSeen(r) /\ Log("CancelSeen", r)

Emit ==
    /\ ~emitted
    /\ Quiet \/ Len(hist) >= MaxLen \/ ~ENABLED Next
    /\ ndJsonSerialize(OutDir \o "/b" \o ToString(TLCGet("stats").traces) \o ".ndjson",
                       <<[acc |-> acc]>> \o hist)
    /\ emitted' = TRUE
    /\ UNCHANGED <<vars, hist>>

GenNext == Step \/ Emit
GenSpec == GenInit /\ [][GenNext]_gvars
=========================================================================
