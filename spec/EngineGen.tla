----------------------------- MODULE EngineGen -----------------------------
(* Behaviour generator for Engine.tla. Carries the schedule as a history      *)
(* variable (hidden from the state fingerprint by the VIEW) together with the  *)
(* projection of the state after each step, and writes it as NDJSON:           *)
(*   line 1: the population and the design switches,                           *)
(*   then one line per action.                                                 *)
(* tlc -simulate: one file per behaviour (Emit).                               *)
(* tlc (BFS) on a negative design with the invariants on: the counterexample's *)
(* last state carries the attack schedule in hist (-dumpTrace json).           *)
EXTENDS EngineMC, Json, TLCExt

CONSTANTS OutDir, MaxLen

VARIABLES hist, emitted

gvars == <<vars, hist, emitted>>
GenView == vars

Design == [UnlockAt |-> UnlockAt, RefRelease |-> RefRelease, SeqAtomic |-> SeqAtomic,
           DryRunAllocates |-> DryRunAllocates, DryRunPublishes |-> DryRunPublishes,
           RevertEventSwapped |-> RevertEventSwapped, ReplayFromRequest |-> ReplayFromRequest, SeedTx |-> SeedTx, LookupErrorIgnored |-> LookupErrorIgnored, MetaSourceLocked |-> MetaSourceLocked,
           AckWaitsPersist |-> AckWaitsPersist, IkSpan |-> IkSpan, RevertGuard |-> RevertGuard,
           MetaLogsCarryIk |-> MetaLogsCarryIk, CancelAbortsWait |-> CancelAbortsWait]

GenInit == Init /\ hist = <<>> /\ emitted = FALSE

Obs == [ll |-> lastLog', lt |-> lastTx', sl |-> Len(store'), nr |-> Cardinality(refs'),
        wl |-> wl', nq |-> Len(lq'), inf |-> [i \in 1..Len(inflight') |-> inflight'[i].id],
        np |-> Len(pending'), so |-> seqOwner']

GStep ==
    \E p \in Procs :
        /\ Step(p)
        /\ hist' = Append(hist, [a |-> "step", p |-> p, at |-> pc'[p], rs |-> resp'[p].st,
                                  code |-> resp'[p].code, txid |-> resp'[p].txid] @@ Obs)

GReadFail == \E p \in Procs : ReadFail(p) /\ hist' = Append(hist, [a |-> "readfail", p |-> p, at |-> pc'[p], rs |-> resp'[p].st,
                                                                   code |-> resp'[p].code, txid |-> resp'[p].txid] @@ Obs)
GCancel == \E p \in Procs : Cancel(p) /\ hist' = Append(hist, [a |-> "cancel", p |-> p] @@ Obs)
GPersist == Persist /\ hist' = Append(hist, [a |-> "persist"] @@ Obs)
GCrash(applied) == Crash(applied) /\ hist' = Append(hist, [a |-> "crash", applied |-> applied] @@ Obs)

Emit ==
    /\ ~emitted
    /\ Quiet \/ Len(hist) >= MaxLen \/ ~ENABLED Next
    /\ ndJsonSerialize(OutDir \o "/b" \o ToString(TLCGet("stats").traces) \o ".ndjson",
                       <<[req |-> req, design |-> Design]>> \o hist)
    /\ emitted' = TRUE
    /\ UNCHANGED <<vars, hist>>

GenNext ==
    \/ /\ ~emitted /\ Len(hist) < MaxLen /\ UNCHANGED emitted
       /\ (GStep \/ GReadFail \/ GCancel \/ GPersist \/ GCrash(TRUE) \/ GCrash(FALSE))
    \/ Emit

GenSpec == GenInit /\ [][GenNext]_gvars

\* sequential histories: a request starts only when no other request is in flight
\* (every order of the requests, crashes between and inside them)
Idle(q) == pc[q] \in {"start", "finished", "dead"}
SeqStep ==
    \E p \in Procs :
        /\ \A q \in Procs \ {p} : Idle(q)
        /\ Step(p)
        /\ hist' = Append(hist, [a |-> "step", p |-> p, at |-> pc'[p], rs |-> resp'[p].st,
                                  code |-> resp'[p].code, txid |-> resp'[p].txid] @@ Obs)
SeqNext ==
    \/ /\ ~emitted /\ Len(hist) < MaxLen /\ UNCHANGED emitted
       /\ (SeqStep \/ GReadFail \/ GPersist \/ GCrash(TRUE) \/ GCrash(FALSE))
    \/ Emit
SeqSpec == GenInit /\ [][SeqNext]_gvars

\* model checking with the history carried along (negative designs): no Emit
AttackNext == UNCHANGED emitted /\ (GStep \/ GReadFail \/ GCancel \/ GPersist \/ GCrash(TRUE) \/ GCrash(FALSE))
AttackSpec == GenInit /\ [][AttackNext]_gvars
=============================================================================
