--------------------------- MODULE LockProps ---------------------------
(* Property predicates of the account lock manager (C15), written over     *)
(* plain values so that the same definitions are evaluated                  *)
(*   - on the variables of the specification Lock.tla (model checking),    *)
(*   - on the values observed from internal/engine/command/lock.go         *)
(*     (LockObs.tla, the verdict on the implementation).                   *)
EXTENDS Naturals, FiniteSets, Sequences

\* a request's accounts: [read : SUBSET Acct, write : SUBSET Acct]
Touches(a) == a.read \cup a.write

Conflict(a, b) ==
    \/ a.write \cap Touches(b) # {}
    \/ b.write \cap Touches(a) # {}

\* no two holders overlap when either holds a shared account for writing
Exclusive(holders, acc) ==
    \A r1, r2 \in holders : r1 # r2 => ~Conflict(acc[r1], acc[r2])

\* tryLock's test (lock.go:40-58)
CompatibleWith(a, rl, wl) ==
    /\ a.read \cap wl = {}
    /\ \A x \in a.write : rl[x] = 0 /\ x \notin wl

\* the lock tables hold exactly what the holders hold: nothing is leaked by an
\* abandoned request, nothing is missing for a holder
TableMatches(rl, wl, holders, acc, accts) ==
    /\ wl = UNION {acc[r].write : r \in holders}
    /\ \A x \in accts : rl[x] = Cardinality({r \in holders : x \in acc[r].read})

\* quiescent progress: no waiting request is compatible with what is held,
\* i.e. every pending request whose conflicting holders have released was granted
NoCompatibleWaiter(queue, rl, wl, acc) ==
    \A i \in 1..Len(queue) : ~CompatibleWith(acc[queue[i]], rl, wl)
=========================================================================
