---------------------------- MODULE ProjectionObs ----------------------------
(* C04 verdict: TLC walks the answers recorded from the real Store's read       *)
(* methods (storeconf -mode project) and compares each with what Replay         *)
(* (Projection.tla, through ProjectionGen's Expect) says the read must report.  *)
(* kind = "pit": the reads taking a point in time (pit 0 = none; exact = the    *)
(* instant of a log date, otherwise half a day later); kind = "now": the reads  *)
(* without one. isolated = the same reads against a database holding only the   *)
(* ledger's own rows answered the same.                                         *)
EXTENDS Integers, Sequences, FiniteSets, TLC, Json
CONSTANT ResultFile, MaxReport
Results == ndJsonDeserialize(ResultFile)
VARIABLES l, viol, cnt
ovars == <<l, viol, cnt>>

Names == {"C04_Isolation", "C04_AccountListing", "C04_AccountVolumes", "C04_AccountMetadata", "C04_TxListing",
          "C04_TxReverted", "C04_TxMetadata", "C04_TxContent", "C04_TxVolumes", "C04_Balance", "C04_Aggregated", "C04_Logs"}
Accts == {"world", "a", "b"}
If(c, n) == IF c THEN {} ELSE {n}
Idx(e) == 1..Len(e.txs)

PitFailing(r) ==
    LET e == r.expect
        g == r.got
        v == SelectSeq(e.txs, LAMBDA t : t.visible)
        expListed == <<-1>> \o [i \in 1..Len(v) |-> v[Len(v) + 1 - i].id]
        mdJudged == ~r.exact \/ r.pit = 0
    IN If(\A a \in Accts : g.accts[a].exists = e.accts[a].exists /\ g.accts[a].dup <= 1, "C04_AccountListing")
       \cup If(g.nacct = Cardinality({a \in Accts : e.accts[a].exists}), "C04_AccountListing")
       \cup If(\A a \in Accts : e.accts[a].exists =>
                   /\ g.accts[a].vol = e.accts[a].vol /\ g.accts[a].lvol = e.accts[a].vol
                   /\ g.accts[a].evol = e.accts[a].evol /\ g.accts[a].levol = e.accts[a].evol, "C04_AccountVolumes")
       \cup If(mdJudged => \A a \in Accts : e.accts[a].exists =>
                   g.accts[a].md = e.accts[a].md /\ g.accts[a].lmd = e.accts[a].md, "C04_AccountMetadata")
       \cup If(g.listed = expListed /\ g.ntx = Len(v), "C04_TxListing")
       \cup If(\A i \in Idx(e) : g.txs[i].visible = e.txs[i].visible
                                  /\ g.txs[i].listed = (IF e.txs[i].visible THEN 1 ELSE 0), "C04_TxListing")
       \cup If(\A i \in Idx(e) : e.txs[i].visible =>
                   g.txs[i].reverted = e.txs[i].reverted /\ g.txs[i].lreverted = e.txs[i].reverted, "C04_TxReverted")
       \cup If(\A i \in Idx(e) : e.txs[i].visible =>
                   g.txs[i].md = e.txs[i].md /\ g.txs[i].lmd = e.txs[i].md, "C04_TxMetadata")
       \cup If(g.aggbal = e.agg[1] - e.agg[2], "C04_Aggregated")

NowFailing(r) ==
    LET e == r.expect
        g == r.got
        n == e.nlogs
        expLogs == <<-1>> \o [i \in 1..n |-> n - i]
        expIk == [i \in 1..Len(g.ik) |-> IF i - 1 < n THEN i - 1 ELSE -1]
    IN If(\A a \in Accts : g.accts[a].bal = e.accts[a].bal, "C04_Balance")
       \cup If(\A a \in Accts : g.accts[a].gmd = e.accts[a].md, "C04_AccountMetadata")
       \cup If(\A i \in Idx(e) : /\ g.txs[i].found /\ g.txs[i].ts = e.txs[i].ts /\ g.txs[i].postings = e.txs[i].postings
                                  /\ g.txs[i].byref = e.txs[i].id /\ g.txs[i].brts = e.txs[i].ts, "C04_TxContent")
       \cup If(\A i \in Idx(e) : g.txs[i].found => g.txs[i].reverted = e.txs[i].reverted, "C04_TxReverted")
       \cup If(\A i \in Idx(e) : g.txs[i].found => g.txs[i].md = e.txs[i].md, "C04_TxMetadata")
       \cup If(\A i \in Idx(e) : /\ g.txs[i].wv
                                  /\ g.txs[i].wv => /\ g.txs[i].post = e.txs[i].post /\ g.txs[i].pre = e.txs[i].pre
                                                    /\ g.txs[i].epost = e.txs[i].epost /\ g.txs[i].epre = e.txs[i].epre, "C04_TxVolumes")
       \cup If(g.foreign = <<-1>>, "C04_Isolation")
       \cup If(g.last = (IF Len(e.txs) = 0 THEN -1 ELSE e.txs[Len(e.txs)].id)
               /\ (Len(e.txs) > 0 => g.lastts = e.txs[Len(e.txs)].ts), "C04_TxListing")
       \cup If(g.logs = expLogs /\ g.lastlog = n - 1 /\ g.ik = expIk /\ g.logdata, "C04_Logs")

Failing(r) == (IF r.kind = "pit" THEN PitFailing(r) ELSE NowFailing(r)) \cup If(r.isolated, "C04_Isolation")

OInit == l = 0 /\ viol = {} /\ cnt = [n \in Names |-> 0] /\ TLCSet(1, {}) /\ TLCSet(2, [n \in Names |-> 0])
ONext ==
    /\ l < Len(Results)
    /\ l' = l + 1
    /\ LET f == Failing(Results[l + 1]) IN
       /\ cnt' = [n \in Names |-> IF n \in f THEN cnt[n] + 1 ELSE cnt[n]]
       /\ viol' = viol \cup {<<n, l + 1>> : n \in {m \in f : cnt[m] < MaxReport}}
    /\ TLCSet(1, viol') /\ TLCSet(2, cnt')
OSpec == OInit /\ [][ONext]_ovars
Post == PrintT(<<"OBS-VERDICT", TLCGet(1)>>) /\ PrintT(<<"OBS-COUNTS", TLCGet(2)>>)
=============================================================================
