-------------------------- MODULE NumscriptProgGen --------------------------
(* Bounded universe of whole programs (vars section x statements) for C08 / C12 / C01, *)
(* with the outcome the text defines; emitted for the replay harness.                   *)
EXTENDS NumscriptProg, TLCExt, Randomization

CONSTANTS OutFile, SampleN

A == Lit(VAcct("a"))
B == Lit(VAcct("b"))
X == Lit(VAcct("x"))
M == Lit(VAcct("m"))
W == Lit(VAcct("world"))

DS  == Decl("s", "account", "plain", NoExpr, "", VAcct("a"))
DSm == Decl("s", "account", "plain", NoExpr, "", NoVal)
DSw == Decl("s", "account", "plain", NoExpr, "", VStr("not an address!"))
DAm == Decl("amt", "monetary", "plain", NoExpr, "", VMon(3))
DN  == Decl("n", "number", "plain", NoExpr, "", VNum(2))
DAs == Decl("as", "asset", "plain", NoExpr, "", VAsset("USD"))
\* what a JSON null in the request's variable map becomes: the string "null" (for an account variable it is an address)
DNnull  == Decl("n", "number", "plain", NoExpr, "", VStr("null"))
DAmnull == Decl("amt", "monetary", "plain", NoExpr, "", VStr("null"))
DAsnull == Decl("as", "asset", "plain", NoExpr, "", VStr("null"))
DP  == Decl("p", "account", "meta", M, "payer", NoVal)
DPx == Decl("p", "account", "meta", M, "missing", NoVal)
DPt == Decl("p", "monetary", "meta", M, "payer", NoVal)
DPv == Decl("p", "account", "meta", Var("s"), "payer", NoVal)
DPe == Decl("p", "account", "meta", Var("amt"), "payer", NoVal)
DF  == Decl("fee", "monetary", "meta", M, "fee", NoVal)
DB  == Decl("bal", "monetary", "balance", A, "", NoVal)
DB2 == Decl("balz", "monetary", "balance", A, "", NoVal)
DBb == Decl("balb", "monetary", "balance", B, "", NoVal)
DBn == Decl("bal", "number", "balance", A, "", NoVal)
DBs == Decl("bal", "monetary", "balance", Var("s"), "", NoVal)

DeclSets == {<<>>, <<DNnull>>, <<DAmnull>>, <<DAsnull>>, <<DAm, DNnull>>, <<DAs>>, <<DAs, DN>>, <<DS>>, <<DSm>>, <<DSw>>, <<DAm>>, <<DS, DAm>>, <<DAm, DN>>, <<DP>>, <<DPx>>, <<DPt>>, <<DS, DPv>>, <<DAm, DPe>>, <<DPv, DS>>,
             <<DF, DAm>>, <<DB>>, <<DB, DF>>, <<DB, DB2>>, <<DBb, DAm>>, <<DBn>>, <<DS, DBs>>, <<DS, DS>>}

Amts == {Lit(VMon(3)), Lit(VMon(0)), Var("amt"), Var("bal"), Var("balb"), Add(Var("amt"), Lit(VMon(1))), Sub(Var("amt"), Lit(VMon(5))),
         Sub(Var("bal"), Var("fee")), Add(Lit(VMon(1)), Lit(VMonIn("EUR", 1))), Sub(Lit(VMon(5)), Lit(VMonIn("EUR", 1))), Add(Var("n"), Lit(VMon(1))), Var("nope"), Lit(VNum(3)),
         Sub(Add(Lit(VMon(7)), Var("amt")), Var("amt")), Sub(Lit(VMon(7)), Var("amt")), Sub(Lit(VMon(7)), Lit(VMon(2))),
         \* the asset position of a literal: an asset, an asset variable, number arithmetic, a number variable
         MonLit(Lit(VAsset("USD")), 3), MonLit(Var("as"), 3), MonLit(Add(Lit(VNum(1)), Lit(VNum(2))), 10), MonLit(Var("n"), 10)}
Srcs == {A, B, W, Var("s"), Var("p"), Var("amt")}
Vals == {Lit(VStr("hello")), Lit(VNum(42)), Lit(VMon(9)), Lit(VAcct("a")), Lit(VAsset("USD")), Lit(VPor("1/2")), Var("s"), Var("amt"), Var("n"),
         Add(Var("n"), Lit(VNum(1))), Sub(Var("n"), Lit(VNum(5))), Add(Lit(VNum(1)), Lit(VStr("s"))), Add(Lit(VNum(1)), Lit(VMon(2))), Var("bal"), Var("nope"),
         \* monetary values that are not amounts one could send: below zero, zero
         Sub(Lit(VMon(1)), Lit(VMon(5))), Sub(Var("amt"), Var("amt")), MonLit(Add(Lit(VNum(1)), Lit(VNum(2))), 10), MonLit(Var("as"), 0)}

Sends == {SSend(m, s, od, X) : m \in Amts, s \in Srcs, od \in {-1}} \cup {SSend(Var("amt"), s, od, X) : s \in {A, Var("s")}, od \in {2, -2}}
         \cup {SSendAll(s, X) : s \in {A, W, Var("s"), Var("p")}} \cup {SSend(Lit(VMon(3)), A, -1, d) : d \in {Var("s"), Var("amt"), B}}
Others == {SSave(m, s) : m \in {Lit(VMon(2)), Var("amt"), Sub(Lit(VMon(1)), Lit(VMon(5))), Lit(VNum(1))}, s \in {A, B, Var("s"), Var("amt")}}
          \cup {SSaveAll(s) : s \in {A, B, Var("s")}}
          \cup {STxMeta(k, v) : k \in {"k", "dup"}, v \in Vals} \cup {SAcctMeta(a, "k", v) : a \in {A, Var("s"), Var("amt")}, v \in {Lit(VStr("hello")), Var("amt"), Var("n"), Var("nope")}}
          \cup {SFail, SPrint(Lit(VNum(1))), SPrint(Var("amt")), SPrint(Add(Lit(VNum(1)), Lit(VStr("s"))))}

StmtSeqs == {<<s>> : s \in Sends \cup Others}
            \cup {<<o, s>> : o \in Others, s \in {SSend(Lit(VMon(3)), A, -1, X), SSend(Var("amt"), Var("s"), -1, X), SSendAll(A, X), SSend(Lit(VMon(2)), A, 2, X)}}
            \cup {<<SSend(Sub(Lit(VMon(7)), Lit(VMon(2))), W, -1, X), SSend(Sub(Lit(VMon(7)), Lit(VMon(2))), A, -1, X)>>,
                  <<SSend(Sub(Lit(VMon(7)), Var("amt")), W, -1, X), STxMeta("k", Lit(VMon(7)))>>}
            \* an account whose balance the program has loaded or saved receives funds before / after it gives
            \cup {<<SSaveAll(a), SSend(Lit(VMon(3)), W, -1, a)>> : a \in {A, B}}
            \cup {<<SSave(Lit(VMon(2)), A), SSend(Lit(VMon(3)), W, -1, A), SSend(Lit(VMon(3)), A, -1, X)>>,
                  <<SSend(Lit(VMon(3)), W, -1, A), SSend(Lit(VMon(3)), A, -1, X)>>,
                  <<SSend(Lit(VMon(3)), B, -1, A), SSendAll(A, X)>>}
            \cup {<<s, o>> : o \in {SFail, STxMeta("k", Lit(VStr("hello"))), STxMeta("dup", Var("amt")), SSave(Lit(VMon(2)), A)},
                             s \in {SSend(Lit(VMon(3)), A, -1, X), SSend(Var("amt"), W, -1, Var("s"))}}

Stores == {[bal |-> [x \in {"a", "b", "x", "m", "world"} |-> IF x = "a" THEN ba ELSE IF x = "b" THEN 3 ELSE 0],
            meta |-> (<<"m", "payer">> :> VAcct("a")) @@ (<<"m", "fee">> :> VMon(2))] : ba \in {-1, 0, 5}}

Progs == {[decls |-> d, stmts |-> s, extraVar |-> FALSE, scriptMeta |-> {}] : d \in DeclSets, s \in StmtSeqs}
         \cup {[decls |-> d, stmts |-> <<STxMeta("dup", Lit(VStr("hello"))), SSend(Lit(VMon(3)), W, -1, X)>>, extraVar |-> e, scriptMeta |-> sm] :
                  d \in {<<>>, <<DS>>}, e \in BOOLEAN, sm \in {{}, {"dup"}, {"other"}}}

Cases == {[prog |-> p, store |-> st] : p \in (IF SampleN > 0 THEN RandomSubset(SampleN, Progs) ELSE Progs), st \in Stores}

VARIABLE c
Init == c \in Cases
Next == UNCHANGED c
Spec == Init /\ [][Next]_c

Out(cs) == Run(cs.prog, cs.store)

\* laws on the reference semantics
LawRejectedWhole == Out(c).class # "ok" => Out(c).posts = <<>>
LawNeverOverdrawn == Out(c).class = "ok" => NeverOverdrawn(Out(c).posts, c.store.bal, ProgSends(c.prog, c.store))

MetaSeq(m) == [i \in 1..Len(SetToSeq(DOMAIN m)) |-> [k |-> SetToSeq(DOMAIN m)[i], v |-> m[SetToSeq(DOMAIN m)[i]]]]
StoreMeta(st) == [i \in 1..Len(SetToSeq(DOMAIN st.meta)) |->
                    [acct |-> SetToSeq(DOMAIN st.meta)[i][1], key |-> SetToSeq(DOMAIN st.meta)[i][2], v |-> st.meta[SetToSeq(DOMAIN st.meta)[i]]]]
Emit == TLCGet("stats").generated >= 0 /\
        ndJsonSerialize(OutFile, SetToSeq({[prog |-> [decls |-> cs.prog.decls, stmts |-> cs.prog.stmts, extraVar |-> cs.prog.extraVar,
                                                      scriptMeta |-> SetToSeq(cs.prog.scriptMeta)],
                                            bal |-> cs.store.bal, meta |-> StoreMeta(cs.store),
                                            sends |-> ProgSends(cs.prog, cs.store),
                                            exp |-> [class |-> Out(cs).class, posts |-> Out(cs).posts,
                                                     txmeta |-> MetaSeq(Out(cs).txmeta),
                                                     acctmeta |-> [i \in 1..Len(SetToSeq(DOMAIN Out(cs).acctmeta)) |->
                                                         [acct |-> SetToSeq(DOMAIN Out(cs).acctmeta)[i][1], k |-> SetToSeq(DOMAIN Out(cs).acctmeta)[i][2],
                                                          v |-> Out(cs).acctmeta[SetToSeq(DOMAIN Out(cs).acctmeta)[i]]]]]] : cs \in Cases}))
=============================================================================
