------------------------------ MODULE BulkObs ------------------------------
(* Verdict on the implementation for C18: every bulk enumerated by Bulk.tla was    *)
(* POSTed to the real v2 router -> bulkHandler -> ProcessBulk over a real           *)
(* Commander. Recorded: the backend calls it caused (which element, did it fail),   *)
(* the results array of the response, the HTTP status.                              *)
EXTENDS Naturals, Sequences, FiniteSets, TLC, Json

CONSTANT ResultFile, MaxReport
Results == ndJsonDeserialize(ResultFile)
VARIABLES l, viol, cnt
ovars == <<l, viol, cnt>>
Names == {"C18_InOrder", "C18_OneResultPerElement", "C18_StopsAtFailure", "C18_SignalsFailure", "C18_ElementsIndependent", "Conf_CallOutcomeAsPlanned"}
\* which positions carry attributes of their own (Bulk.tla Rich / Own); "all" uses one key per action kind
Rich(r, k) == r.pat = "all" \/ (r.pat = "odd" /\ k % 2 = 1) \/ (r.pat = "even" /\ k % 2 = 0)
ExpIk(r, k) == IF ~Rich(r, k) THEN "" ELSE IF r.pat = "all" THEN "key-" \o r.bulk[k].kind ELSE "key-" \o ToString(k)
ExpAttr(r, k) == IF Rich(r, k) /\ r.bulk[k].kind = "CREATE" THEN ToString(k) ELSE ""
Kinds == {"CREATE", "ADD_META", "REVERT", "DEL_META"}

\* did element k of the request fail, as observed: not executable, or its backend call returned an error
CallOf(r, k) == {j \in 1..Len(r.calls) : r.calls[j].el = k}
FailedObs(r, k) == r.bulk[k].kind \notin Kinds \/ \E j \in CallOf(r, k) : r.calls[j].err
\* the elements the endpoint had to process: up to the first failing one, or all
FirstFail(r) == LET f == {k \in 1..Len(r.bulk) : FailedObs(r, k)} IN IF f = {} THEN 0 ELSE CHOOSE k \in f : \A j \in f : k <= j
Processed(r) == IF ~r.cont /\ FirstFail(r) > 0 THEN FirstFail(r) ELSE Len(r.bulk)

MinLen(r, p) == IF Len(r.results) < p THEN Len(r.results) ELSE p

Failing(r) ==
    LET T(name, ok) == IF ok THEN {} ELSE {name}
        p == Processed(r)
        wanted == SelectSeq([k \in 1..p |-> k], LAMBDA k : r.bulk[k].kind \in Kinds)
    IN  T("C18_InOrder", [j \in 1..Len(r.calls) |-> r.calls[j].el] = wanted)
        \cup T("C18_OneResultPerElement", /\ Len(r.results) = p
                                          /\ \A k \in 1..MinLen(r, p) : r.results[k].ok = ~FailedObs(r, k))
        \cup T("C18_StopsAtFailure", ~r.cont => \A j \in 1..Len(r.calls) : \A k \in 1..(r.calls[j].el - 1) : ~FailedObs(r, k))
        \cup T("C18_SignalsFailure", (r.status = 400) = (\E k \in 1..p : FailedObs(r, k)))
        \cup T("C18_ElementsIndependent", \A j \in 1..Len(r.calls) :
                  LET k == r.calls[j].el IN
                  k \in 1..Len(r.bulk) => /\ r.calls[j].ik = ExpIk(r, k)
                                           /\ r.calls[j].attr = ExpAttr(r, k))
        \cup T("Conf_CallOutcomeAsPlanned", \A j \in 1..Len(r.calls) : r.calls[j].err = r.bulk[r.calls[j].el].fail \/ r.pat = "all")

OInit == l = 0 /\ viol = {} /\ cnt = [n \in Names |-> 0] /\ TLCSet(1, {}) /\ TLCSet(2, [n \in Names |-> 0])
ONext ==
    /\ l < Len(Results)
    /\ l' = l + 1
    /\ LET f == Failing(Results[l + 1]) IN
       /\ cnt' = [n \in Names |-> IF n \in f THEN cnt[n] + 1 ELSE cnt[n]]
       /\ viol' = viol \cup {<<n, l + 1>> : n \in {m \in f : cnt[m] < MaxReport}}
    /\ TLCSet(1, viol') /\ TLCSet(2, cnt')
OSpec == OInit /\ [][ONext]_ovars
Post == PrintT(<<"OBS-VERDICT", TLCGet(1)>>) /\ PrintT(<<"OBS-COUNTS", TLCGet(2)>>)
=============================================================================
