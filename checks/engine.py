"""Engine family: C02 C05 C06 C07 C10 C11 C14 C16 share Engine.tla, the replay harness
(harness/cmd/engineconf), the observation oracle EngineObs.tla and the conformance spec EngineTrace.tla."""
import json, os, shutil
import common
from common import Infra

LEVEL = "model_checking"

GOOD = {"UnlockAt": "persisted", "RefRelease": "persisted", "SeqAtomic": True, "DryRunAllocates": False,
        "DryRunPublishes": False, "RevertEventSwapped": False, "MetaSourceLocked": True,
        "AckWaitsPersist": True, "IkSpan": "run", "RevertGuard": True, "MetaLogsCarryIk": True,
        "CancelAbortsWait": False, "ReplayFromRequest": False, "SeedTx": True, "LookupErrorIgnored": False}

SPEC_INVS = ("TypeOK LocksConsistent QuiescentClean C02_SerialFunds C05_IdsGapFree C05_TxIdsSequential C06_AckPersisted "
             "C06_RejectedLeavesNothing C06_OneEntryPerRequest C07_IkOnce C10_RevertOnce C11_RefOnce C14_DryRun "
             "C14_NoIdConsumed C16_EventsFaithful C16_AllPublished").split()

# per property: palettes (name, MaxCrash), negative designs (switch, bad value, palette, MaxCrash), deciding invariants
PROPS = {
    "C02": dict(palettes=[("PalFunds", 0), ("PalCache", 0)],
                negatives=[("UnlockAt", "early", "PalFunds", 0), ("MetaSourceLocked", False, "PalFunds", 0),
                           ("CancelAbortsWait", True, "PalFunds", 0), ("UnlockAt", "early", "PalCache", 0)],
                invs=["C02_SerialFunds"]),
    "C05": dict(palettes=[("PalKinds", 0), ("PalRestart", 1), ("PalDry", 0), ("PalMetaOnly", 1)],
                negatives=[("SeqAtomic", False, "PalKinds", 0), ("DryRunAllocates", True, "PalDry", 0)],
                invs=["C05_IdsGapFree", "C05_TxIdsSequential", "C05_HashChain"]),
    "C06": dict(palettes=[("PalRestart", 1), ("PalRef", 0), ("PalIk", 0)],
                negatives=[("AckWaitsPersist", False, "PalRestart", 1), ("CancelAbortsWait", True, "PalRestart", 0)],
                invs=["C06_AckPersisted", "C06_RejectedLeavesNothing", "C06_OneEntryPerRequest"]),
    "C07": dict(palettes=[("PalIk", 1), ("PalIkRead", 1)],
                negatives=[("IkSpan", "exec", "PalIk", 0), ("MetaLogsCarryIk", False, "PalIk", 0), ("ReplayFromRequest", True, "PalIk", 0),
                           ("LookupErrorIgnored", True, "PalIkRead", 0)],
                invs=["C07_IkOnce", "C06_AckPersisted"]),
    "C10": dict(palettes=[("PalRevert", 0), ("PalRefRead", 0)],
                negatives=[("RevertGuard", False, "PalRevert", 0)],
                invs=["C10_RevertOnce", "C02_SerialFunds"]),
    "C11": dict(palettes=[("PalRef", 0), ("PalRefRead", 0)],
                negatives=[("RefRelease", "execReturn", "PalRef", 0), ("LookupErrorIgnored", True, "PalRefRead", 0)],
                invs=["C11_RefOnce"]),
    # C12, engine side: whatever a script does (failing balance lookups, overdrafts, refused programs), the request
    # ends and leaves no lock, reservation or unanswered request behind (NothingLeftBehind is judged for every property)
    "C12": dict(palettes=[("PalFunds", 0)], negatives=[], invs=[]),
    "C14": dict(palettes=[("PalDry", 0), ("PalDry2", 0)],
                negatives=[("DryRunAllocates", True, "PalDry", 0), ("DryRunPublishes", True, "PalDry", 0)],
                invs=["C14_DryRun", "C14_NoIdConsumed", "C06_AckPersisted"]),
    "C16": dict(palettes=[("PalKinds", 0), ("PalRevert", 0), ("PalDry", 0), ("PalDry2", 0), ("PalIk", 1)],
                negatives=[("RevertEventSwapped", True, "PalRevert", 0), ("DryRunPublishes", True, "PalDry", 0), ("ReplayFromRequest", True, "PalIk", 0),
                           ("AckWaitsPersist", False, "PalKinds", 0)],
                invs=["C16_EventsFaithful", "C16_AllPublished"]),
}


def coded_design():
    d = json.load(open(os.path.join(common.SPEC, "design.json")))
    return {k: d[k] for k in GOOD}


def tla(v):
    if isinstance(v, bool):
        return "TRUE" if v else "FALSE"
    return '"%s"' % v


def cfg(spec, palette, nprocs, design, invs, maxcrash, extra=""):
    if palette.startswith("PalMetaOnly"):
        design = dict(design, SeedTx=False)   # this palette is about a ledger that holds no transaction yet
    return "SPECIFICATION %s\nCONSTANTS\n  Procs = {%s}\n  Palette <- %s\n%s  MaxCrash = %d\n%s%s\nCHECK_DEADLOCK FALSE\n" % (
        spec, ", ".join('"p%d"' % i for i in range(1, nprocs + 1)), palette,
        "".join("  %s = %s\n" % (k, tla(v)) for k, v in design.items()) + "  MaxCancel = 1\n  MaxReadFail = %d\n" % (1 if palette.startswith(("PalIkRead", "PalRefRead")) else 0), maxcrash, extra,
        ("INVARIANTS " + " ".join(invs)) if invs else "")


def obs_cfg(trace, invs):
    return "SPECIFICATION OSpec\nCONSTANT TraceFile = \"%s\"\nINVARIANTS %s ObsNoHang\nCHECK_DEADLOCK FALSE\n" % (
        trace, " ".join("Obs" + i for i in invs))


def trace_cfg(trace, design):
    return "SPECIFICATION TraceSpec\nCONSTANTS\n  Procs = {\"p1\", \"p2\", \"p3\"}\n  Palette <- PalFunds\n%s  MaxCancel = 9\n  MaxReadFail = 9\n  MaxCrash = 9\n  TraceFile = \"%s\"\nCHECK_DEADLOCK TRUE\n" % (
        "".join("  %s = %s\n" % (k, tla(v)) for k, v in design.items()), trace)


def split_exec(lines):
    out, cur, start = [], [], 0
    for i, l in enumerate(lines):
        if l.get("ev") == "reset":
            if cur:
                out.append((start, cur))
            cur, start = [], i
        cur.append(l)
    if cur:
        out.append((start, cur))
    return out


def signature(inv, excerpt):
    """invariant + shape of the observable step at which it fails + the kinds of requests involved"""
    last = excerpt[-1]
    ev = last.get("ev")
    detail = ""
    if ev == "publish":
        by = last.get("by")
        reqs = excerpt[0]["req"]
        me = reqs.get(by, {})
        dry = me.get("dry")
        detail = ":%s%s" % (last.get("type"), ":dry" if dry else "")
        # the event of a request answered through its idempotency key from an entry that another
        # request, with other arguments, produced
        if me.get("ik"):
            for l in excerpt:
                for lg in (l.get("logs") or []) if l.get("ev") == "persist" else []:
                    other = reqs.get(lg.get("by"), {})
                    if lg.get("ik") == me["ik"] and lg.get("by") != by and \
                            any(other.get(k) != me.get(k) for k in ("kind", "target", "tacct", "mval", "postings")):
                        detail += ":ik-replay-other-args"
    elif ev == "persist":
        detail = ":" + "+".join(sorted({l.get("kind", "?") for l in last.get("logs", [])}))
        req = excerpt[0]["req"]
        if any(r.get("dry") for r in req.values()):
            detail += ":with-dry"
        if any(r.get("mode") == "meta" for r in req.values()):
            detail += ":with-meta-source"
    elif ev == "resp":
        detail = ":%s:%s" % (last.get("kind"), last.get("st"))
        reqs = excerpt[0]["req"]
        me = reqs.get(last.get("p"), {})
        # the response of a request that shares its idempotency key with a request of another kind or with other arguments
        if me.get("ik") and any(q != last.get("p") and r.get("ik") == me["ik"] and
                                any(r.get(k) != me.get(k) for k in ("kind", "target", "tacct", "mval", "postings"))
                                for q, r in reqs.items()):
            detail += ":ik-replay-other-args"
    return "%s@%s%s" % (inv, ev, detail)


def rerun_fails(ctx, header, schedule, inv, k):
    """Replay one behaviour alone on the real Commander and ask TLC whether inv fails on what is observed."""
    import re
    bdir = ctx.mkdir("confirm-%d" % k)
    with open(os.path.join(bdir, "b0.ndjson"), "w") as f:
        f.write(json.dumps({"req": header["req"], "design": header.get("design", {})}) + "\n")
        for st in schedule:
            f.write(json.dumps(st) + "\n")
    out = ctx.path("confirm-%d.ndjson" % k)
    ctx.run([ctx.build("engineconf"), "-in", bdir, "-out", out, "-stats", ctx.path("confirm-stats.json")], timeout=600)
    res = ctx.tlc("EngineObs", "SPECIFICATION OSpec\nCONSTANT TraceFile = \"%s\"\nPOSTCONDITION Post\nCHECK_DEADLOCK FALSE\n" % out,
                  "confirm-%d" % k, workers=1, timeout=600)
    if res["status"] != "ok" or "OBS-VERDICT" not in res["output"]:
        raise Infra("EngineObs did not deliver a verdict while confirming (%s)" % res["status"])
    return inv in [m.group(1) for m in re.finditer(r'<<"(\w+)", (\d+)>>', res["output"].split("OBS-VERDICT", 1)[1])]


def judge(ctx, tracefile, invs, label, confirm=True):
    """One TLC run of EngineObs.tla over the whole trace; it reports every (predicate, line) first failure.
    A failure becomes a violation only if the same behaviour, replayed alone twice more, fails the same predicate
    both times: the replay is deterministic (gated scheduler), so what does not reproduce was an artefact of the
    harness (a time-out under load), not a behaviour of the code."""
    import re
    res = ctx.tlc("EngineObs", "SPECIFICATION OSpec\nCONSTANT TraceFile = \"%s\"\nPOSTCONDITION Post\nCHECK_DEADLOCK FALSE\n" % tracefile,
                  "obs-" + label, workers=1, timeout=1800)
    if res["status"] != "ok" or "OBS-VERDICT" not in res["output"]:
        raise Infra("EngineObs did not deliver a verdict (%s)" % res["status"])
    verdict = res["output"].split("OBS-VERDICT", 1)[1]
    found = [(m.group(1), int(m.group(2))) for m in re.finditer(r'<<"(\w+)", (\d+)>>', verdict)]
    mine = sorted([(n, l) for (n, l) in found if n in invs or n == "NothingLeftBehind"], key=lambda x: x[1])
    ctx.coverage["observed_failures_all_engine_predicates"] = len(found)
    if not mine:
        return
    lines = common.read_ndjson(tracefile)
    execs = split_exec(lines)
    seen = set()
    tries = {}
    for inv, l in mine:
        hit = [(s, e) for (s, e) in execs if s < l <= s + len(e)]
        if not hit:
            raise Infra("cannot locate violating execution (l=%d)" % l)
        s, e = hit[0]
        excerpt = e[: l - s]
        sig = signature(inv, excerpt)
        if sig in seen:
            continue
        seen.add(sig)
        obs = [x for x in excerpt if x.get("ev") in ("persist", "resp", "publish", "crash", "hung", "end")]
        what = "%s fails on the real Commander; observable history: %s" % (inv, json.dumps(obs)[:1200])
        # the schedule to replay is the behaviour file the execution was driven by (the steps echoed in the
        # trace leave out actions the implementation did not follow, e.g. a store failure it survived)
        schedule = [x for x in e if x.get("ev") == "step"]
        srcfile = os.path.join(ctx.path("behaviours"), str(excerpt[0].get("src")))
        if os.path.isfile(srcfile):
            schedule = common.read_ndjson(srcfile)[1:]
            # store failures: the error each crash step injected in the recorded execution
            flavours = [x.get("flavour", -1) for x in e if x.get("ev") in ("crash", "storefail-survived", "crash-skipped")]
            crashes = [st for st in schedule if st.get("a") == "crash"]
            if len(flavours) == len(crashes):
                for st, fl in zip(crashes, flavours):
                    st["flavour"] = fl
        if confirm and not str(excerpt[0].get("src", "")).startswith("free-"):
            k = ctx.coverage.get("confirmation_replays", 0)
            ctx.coverage["confirmation_replays"] = k + 2
            if not (rerun_fails(ctx, excerpt[0], schedule, inv, k) and rerun_fails(ctx, excerpt[0], schedule, inv, k + 1)):
                ctx.coverage["unconfirmed_observations"] = ctx.coverage.get("unconfirmed_observations", 0) + 1
                ctx.notes.append("UNCONFIRMED: %s (%s) was observed once and did not reproduce when its behaviour was replayed alone twice; dropped" % (inv, sig))
                tries[sig] = tries.get(sig, 0) + 1
                if tries[sig] < 2:
                    seen.discard(sig)   # one more occurrence of the same shape gets a chance
                continue
        ctx.violation(sig, what, {"kind": "engine-trace", "header": excerpt[0],
                                  "schedule": schedule,
                                  "observed": obs, "src": excerpt[0].get("src")})


def cex_to_behaviour(cex_json, design, out):
    d = json.load(open(cex_json))
    states = d["counterexample"]["state"]
    last = states[-1][1]
    with open(out, "w") as f:
        f.write(json.dumps({"req": last["req"], "design": design}) + "\n")
        for h in last["hist"]:
            f.write(json.dumps(h) + "\n")
    return len(last["hist"])


def run_prop(ctx, prop):
    P = PROPS[prop]
    thorough = ctx.tier == "thorough"
    coded = coded_design()
    invs = P["invs"]
    spec_invs = [i for i in invs if i != "C05_HashChain"]
    from concurrent.futures import ThreadPoolExecutor
    pool = ThreadPoolExecutor(max_workers=6)
    bdir = ctx.mkdir("behaviours")
    # 1. the repaired design satisfies every engine property on the bounded model
    strict = []
    for pal, crash in P["palettes"]:
        strict.append((pal, 3, pool.submit(ctx.tlc, "EngineMC", cfg("Spec", pal, 3, GOOD, SPEC_INVS, crash), "strict-%s" % pal,
                                            workers=4, timeout=2400, pure=True)))
        if thorough:
            strict.append((pal, 4, pool.submit(ctx.tlc, "EngineMC", cfg("Spec", pal + "4", 4, GOOD, SPEC_INVS, 0), "strict4-%s" % pal,
                                                workers=8, timeout=3400, pure=True)))
    # 2. negative designs: each must be rejected by one of this property's invariants; the counterexample is an attack schedule
    def attack(sw, bad, pal, crash):
        design = dict(GOOD)
        design[sw] = bad
        for n in (2, 3):
            cex = ctx.path("cex-%s-%s-%d.json" % (sw, pal, n))
            extra = '  OutDir = "%s"\n  MaxLen = 200\nVIEW GenView\n' % bdir
            r = ctx.tlc("EngineGen", cfg("AttackSpec", pal, n, design, spec_invs, crash, extra), "neg-%s-%s-%d" % (sw, pal, n),
                        workers=2, timeout=1800, extra=["-dumpTrace", "json", cex])
            if r["status"] == "invariant":
                cex_to_behaviour(cex, design, os.path.join(bdir, "attack-%s-%s-%d.ndjson" % (sw, pal, n)))
                return "%s=%s/%s/%d:%s" % (sw, bad, pal, n, r["invariant"])
        raise Infra("negative design %s=%s was not rejected by %s (vacuity guard)" % (sw, bad, spec_invs))
    negs = [pool.submit(attack, *neg) for neg in P["negatives"]]
    # 3. random behaviours: the design as coded and the repaired design on every palette, each negative design on its palette
    jobs = []
    for dsg in ([coded] if coded == GOOD else [coded, GOOD]):
        for pal, crash in P["palettes"]:
            jobs.append((dsg, pal, crash))
    for sw, bad, pal, crash in P["negatives"]:
        d2 = dict(GOOD, **{sw: bad})
        if (d2, pal, crash) not in jobs:
            jobs.append((d2, pal, crash))
    num = 600 if thorough else 150
    gens = []
    for k, (dsg, pal, crash) in enumerate(jobs):
        sub = ctx.mkdir("gen", "g%d" % k)
        extra = '  OutDir = "%s"\n  MaxLen = 200\n' % sub
        gens.append((k, sub, pool.submit(ctx.tlc, "EngineGen", cfg("GenSpec", pal, 3, dsg, [], crash, extra), "gen-%d" % k, workers=1,
                                         simulate="num=%d" % num, depth=220, timeout=1200)))
    # sequential histories (one request after the other, every order) under the design as coded
    k = len(jobs)
    for pal, crash in P["palettes"]:
        for cr in sorted({0, crash}):
            sub = ctx.mkdir("gen", "g%d" % k)
            extra = '  OutDir = "%s"\n  MaxLen = 200\n' % sub
            gens.append((k, sub, pool.submit(ctx.tlc, "EngineGen", cfg("SeqSpec", pal, 3, coded, [], cr, extra), "seq-%d" % k, workers=1,
                                             simulate="num=%d" % (num * 2), depth=220, timeout=1200)))
            k += 1
    states = trans = 0
    for pal, n, fut in strict:
        r = fut.result()
        if r["status"] != "ok":
            raise Infra("Engine.tla (repaired design, %d requests) violates %s on %s - specification error" % (n, r.get("invariant"), pal))
        states += r.get("distinct", 0)
        trans += r.get("generated", 0)
    attacks = [f.result() for f in negs]
    for k, sub, fut in gens:
        g = fut.result()
        if g["status"] != "ok":
            raise Infra("generation failed (%s)" % g["status"])
        for f in os.listdir(sub):
            shutil.move(os.path.join(sub, f), os.path.join(bdir, "g%d-%s" % (k, f)))
    pool.shutdown()
    nb = len(os.listdir(bdir))
    # 4. replay on the real Commander (sharded over processes) + free-running executions
    binp = ctx.build("engineconf")
    shards = min(common.NCPU, 8)
    import subprocess
    procs = []
    for sh in range(shards):
        out = ctx.path("trace-%d.ndjson" % sh)
        procs.append(subprocess.Popen([binp, "-in", bdir, "-out", out, "-stats", ctx.path("stats-%d.json" % sh),
                                       "-shard", str(sh), "-shards", str(shards), "-free", str(30 if thorough else 6),
                                       "-seed", str(ctx.seed)], env=common.GOENV,
                                      stdout=subprocess.DEVNULL, stderr=open(ctx.path("harness-%d.err" % sh), "w")))
    for pr in procs:
        try:
            rc = pr.wait(timeout=1800)
        except subprocess.TimeoutExpired:
            pr.kill()
            raise Infra("replay harness timed out")
        if rc != 0:
            errs = ""
            for sh2 in range(shards):
                t = open(ctx.path("harness-%d.err" % sh2)).read()
                errs += "".join(l + "\n" for l in t.splitlines() if l.startswith(("HARNESS-ERROR", "fatal error", "panic:", "replay")))
            raise Infra("replay harness failed rc=%d: %s" % (rc, errs[-2000:]))
    stats = {"behaviours": 0, "steps": 0, "skipped_steps": 0, "stuck": 0, "diverged_behaviours": 0, "crashes": 0,
             "persists": 0, "free_runs": 0, "free_requests": 0, "points_reached": {}, "samples": []}
    trace = ctx.path("trace.ndjson")
    with open(trace, "w") as tf:
        for sh in range(shards):
            st = json.load(open(ctx.path("stats-%d.json" % sh)))
            for kk in ("behaviours", "steps", "skipped_steps", "stuck", "diverged_behaviours", "crashes", "persists", "free_runs", "free_requests"):
                stats[kk] += st.get(kk, 0)
            for pt, c in (st.get("points_reached") or {}).items():
                stats["points_reached"][pt] = stats["points_reached"].get(pt, 0) + c
            stats["samples"] += (st.get("samples") or [])[:1]
            stats["distinct_behaviours"] = st.get("distinct_behaviours", 0)
            tf.write(open(ctx.path("trace-%d.ndjson" % sh)).read())
    if stats["behaviours"] < stats.get("distinct_behaviours", 0) or stats["behaviours"] < 50:
        raise Infra("replay floor not met: %d replayed, %d distinct of %d generated behaviours" % (stats["behaviours"], stats.get("distinct_behaviours", 0), nb))
    # 5. verdict on the observable history, then conformance with the design as coded
    judge(ctx, trace, invs, "all")
    c = ctx.tlc("EngineTrace", trace_cfg(trace, coded), "conf", workers=1, timeout=1200)
    drift = 0
    if c["status"] != "ok":
        drift = 1
        ctx.notes.append("SPEC-DRIFT: replayed executions leave Engine.tla (design as coded) at trace line %s (%s)" % (c.get("last_l"), c["status"]))
    nlines = sum(1 for _ in open(trace))
    ctx.coverage.update({
        "states": states, "transitions": trans,
        "traces_validated_against_impl": stats["behaviours"] + stats["free_runs"],
        "negative_designs_rejected": attacks, "behaviours_replayed": stats["behaviours"],
        "replay_steps": stats["steps"], "skipped_steps": stats["skipped_steps"], "stuck": stats["stuck"],
        "behaviours_not_following_their_model": stats["diverged_behaviours"],
        "crashes_replayed": stats["crashes"], "persists": stats["persists"],
        "free_runs": stats["free_runs"], "trace_lines": nlines, "yield_points_reached": stats["points_reached"],
        "spec_drift": drift, "evaluations": stats["behaviours"] + stats["free_runs"],
        "distinct_nontrivial": stats.get("distinct_behaviours", 0),
        "rule": "behaviours = TLC counterexamples of the negative designs (attack schedules) + TLC -simulate of EngineGen.tla (3 requests drawn from the property's palettes, under the design as coded, the repaired design and each negative design); distinct = distinct behaviour files; each replayed on a real Commander under the gated scheduler with a gated store",
        "samples": stats["samples"][:2], "exhaustive": False,
        "deciding_invariants": invs,
    })
    ctx.assumptions += [
        "the harness store (vstore) implements the command.Store contract by replaying the persisted logs; PostgreSQL is not in the loop",
        "a crash is a failing InsertLogs (the repository's own fatal path) or abandoning an idle commander; the store survives",
        "bounded: 3-4 concurrent requests from the palettes of EngineMC.tla, at most one crash",
    ]


def replay_prop(ctx, prop, path):
    art = json.load(open(path))
    rp = art["replay"]
    bdir = ctx.mkdir("behaviours")
    with open(os.path.join(bdir, "b0.ndjson"), "w") as f:
        f.write(json.dumps({"req": rp["header"]["req"], "design": rp["header"].get("design", {})}) + "\n")
        for s in rp["schedule"]:
            f.write(json.dumps(s) + "\n")
    binp = ctx.build("engineconf")
    out = ctx.path("trace.ndjson")
    ctx.run([binp, "-in", bdir, "-out", out, "-stats", ctx.path("stats.json")], timeout=300)
    judge(ctx, out, PROPS[prop]["invs"], "replay", confirm=False)
    ctx.coverage.update({"states": 1, "transitions": 1, "traces_validated_against_impl": 1, "samples": [rp["schedule"][:5]]})
