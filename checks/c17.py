"""C17 - following cursors enumerates each item exactly once.
Paginate.tla transcribes UsingColumn/UsingOffset and states the canonical paging; TLC checks Page = Canon along every
traversal word and emits the traversals; harness/cmd/pageconf executes them with the real code over a fake SQL driver;
PaginateObs.tla (TLC) judges the pages and cursors. Part 2 (cursorconf): every cursor handed out for the real list
queries, with every filter expression, is decoded back and must render the same SQL."""
import json, os, re
import common
from common import Infra

LEVEL = "model_checking"


def verdict_of(o):
    v = o["output"].split("OBS-VERDICT", 1)[1].split("OBS-COUNTS")[0]
    found = [(m.group(1), int(m.group(2))) for m in re.finditer(r'<<"(\w+)", (\d+)>>', v)]
    counts = dict((m.group(1), int(m.group(2))) for m in re.finditer(r'(\w+) \|-> (\d+)', o["output"].split("OBS-COUNTS", 1)[1]))
    return found, counts


def traversal_part(ctx):
    thorough = ctx.tier == "thorough"
    cases = ctx.path("cases.ndjson")
    cfg = ("SPECIFICATION Spec\nCONSTANTS\n  Colls <- %s\n  MaxPage = %d\n  MaxWord = %d\n  OutFile = \"%s\"\n"
           "INVARIANTS PagesAreCanonical\nPOSTCONDITION Emit\nCHECK_DEADLOCK FALSE\n") % (
        "MCCollsBig" if thorough else "MCColls", 9 if thorough else 5, 6 if thorough else 5, cases)
    g = ctx.tlc("PaginateMC", cfg, "paginate", workers=8, timeout=2400)
    if g["status"] != "ok":
        raise Infra("Paginate.tla: the transcribed algorithms do not yield the canonical pages (%s) - specification error" % g.get("invariant"))
    binp = ctx.build("pageconf")
    res = ctx.path("results.ndjson")
    ctx.run([binp, "-in", cases, "-out", res, "-stats", ctx.path("stats.json")], timeout=1800)
    st = json.load(open(ctx.path("stats.json")))
    o = ctx.tlc("PaginateObs", "SPECIFICATION OSpec\nCONSTANTS\n  ResultFile = \"%s\"\n  MaxReport = 5\nPOSTCONDITION Post\nCHECK_DEADLOCK FALSE\n" % res,
                "obs", workers=1, timeout=2400)
    if o["status"] != "ok" or "OBS-VERDICT" not in o["output"]:
        raise Infra("PaginateObs did not deliver a verdict (%s)" % o["status"])
    found, counts = verdict_of(o)
    lines = common.read_ndjson(res)
    for inv, l in found:
        r = lines[l - 1]
        if r.get("mode") == "pagesize":
            ctx.violation("%s@pageSize=%s" % (inv, r["pageSizeParam"]),
                          "bunpaginate.GetPageSize answers %s for the request parameter pageSize=%r: a page of no item makes every traversal endless (hasMore stays true, the cursor does not move)" % (r["pageSize"], r["pageSizeParam"]),
                          {"kind": "c17-pagesize", "param": r["pageSizeParam"]})
            continue
        word = "".join(r["word"])
        kind = "forward" if "P" not in word else ("previous-after-%d-next" % word.index("P"))
        last = "last-page" if len(r["coll"]) % max(r["ps"], 1) == 0 else "partial-last-page"
        sig = "%s@%s/%s/%s" % (inv, r["mode"], kind, r["order"])
        ctx.violation(sig, "%s fails on the real %s paginator: collection %s order %s pageSize %d word %s -> pages %s ; due %s (%s)" % (
            inv, r["mode"], r["coll"], r["order"], r["ps"], word or "-", json.dumps([x["data"] for x in r["real"]]),
            json.dumps([x["canon"] for x in r["steps"]]), last),
            {"kind": "c17-traversal", "case": {k: r[k] for k in ("mode", "coll", "order", "ps", "word", "steps")}})
    return g, st, counts


def run(ctx):
    g, st, counts = traversal_part(ctx)
    ctx.coverage.update({
        "states": g.get("distinct", 0), "transitions": g.get("generated", 0), "traces_validated_against_impl": st["traversals"],
        "evaluations": st["traversals"], "distinct_nontrivial": st["traversals"],
        "rule": "traversals = (paginator in {column, offset}) x (collections 1..n for n<=7 plus two with gaps) x (asc, desc) x (page size 1..5) x (every word over {next, previous} up to length 5); all distinct; each executed with the real bunpaginate code over the fake SQL driver following the real cursor tokens",
        "pages_fetched": st["pages_fetched"], "predicate_failures": counts, "samples": st["samples"][:2], "exhaustive": True,
    })
    ctx.assumptions += ["the fake SQL driver answers SELECT ... WHERE (id <op> N) ORDER BY id LIMIT k OFFSET m from an in-memory set of ids; PostgreSQL is not in the loop"]
    cursor_part(ctx)


def cursor_part(ctx):
    try:
        import c17_cursors
    except ImportError:
        return
    c17_cursors.run(ctx)


def replay(ctx, path):
    art = json.load(open(path))
    if art["replay"].get("kind") == "c17-pagesize":
        binp = ctx.build("pageconf")
        cases = ctx.path("cases.ndjson")
        open(cases, "w").close()
        res = ctx.path("results.ndjson")
        ctx.run([binp, "-in", cases, "-out", res, "-stats", ctx.path("stats.json")], timeout=300)
        for r in common.read_ndjson(res):
            if r.get("pageSizeParam") == art["replay"]["param"] and not r["pageSizeErr"] and r["pageSize"] < 1:
                ctx.violation(art["signature"], "GetPageSize answers %s" % r["pageSize"], art["replay"])
        ctx.coverage.update({"states": 1, "transitions": 1, "traces_validated_against_impl": 1})
        return
    if art["replay"].get("kind") != "c17-traversal":
        import c17_cursors
        return c17_cursors.replay(ctx, art)
    binp = ctx.build("pageconf")
    cases = ctx.path("cases.ndjson")
    with open(cases, "w") as f:
        f.write(json.dumps(art["replay"]["case"]) + "\n")
    res = ctx.path("results.ndjson")
    ctx.run([binp, "-in", cases, "-out", res, "-stats", ctx.path("stats.json")], timeout=300)
    o = ctx.tlc("PaginateObs", "SPECIFICATION OSpec\nCONSTANTS\n  ResultFile = \"%s\"\n  MaxReport = 5\nPOSTCONDITION Post\nCHECK_DEADLOCK FALSE\n" % res, "obs", workers=1)
    found, _ = verdict_of(o)
    for inv, l in found:
        ctx.violation(art["signature"], inv, art["replay"])
    ctx.coverage.update({"states": 1, "transitions": 1, "traces_validated_against_impl": 1, "samples": common.read_ndjson(res)[:1]})
