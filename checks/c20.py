"""C20 - filter values are data, never SQL.
SqlShape.tla: PostgreSQL's lexical structure as a character automaton (Skeleton), the value space (every string up to a
bound over 16 SQL-relevant characters) and its harmless twin; TLC checks the automaton on a correct rendering (quote
doubling) and rejects the naive one. Every value is put into every filter slot of the real Store's list / count /
aggregate queries over the recording fake driver; the structure of the recorded SQL for the value and for its twin is
compared: by a Go transcription of the automaton on every line, and by TLC itself on a seeded sample plus every flagged
line (the two must agree)."""
import json, os, re
import common
from common import Infra

LEVEL = "model_checking"


def cfg(maxlen, out, inv):
    return "SPECIFICATION Spec\nCONSTANTS\n  MaxLen = %d\n  OutFile = \"%s\"\nINVARIANTS %s\nPOSTCONDITION Emit\nCHECK_DEADLOCK FALSE\n" % (maxlen, out, inv)


def run(ctx):
    thorough = ctx.tier == "thorough"
    values = ctx.path("values.ndjson")
    g = ctx.tlc("SqlShape", cfg(3 if thorough else 2, values, "SafeRendering"), "shape", workers=8, timeout=1800)
    if g["status"] != "ok":
        raise Infra("SqlShape.tla failed (%s %s)" % (g["status"], g.get("invariant")))
    neg = ctx.tlc("SqlShape", cfg(2, ctx.path("neg.ndjson"), "NaiveRendering"), "naive", workers=4, timeout=600)
    if neg["status"] != "invariant":
        raise Infra("vacuity guard: the naive rendering was not rejected by Skeleton equality")
    # longer values: a seeded sample of length-3/4 strings is appended by hand (same alphabet)
    import random
    rng = random.Random(ctx.seed)
    alphabet = [97, 58, 39, 34, 92, 45, 59, 63, 42, 47, 36, 32, 233, 48, 40, 41]
    harmless = lambda v: [c if c == 58 or 48 <= c <= 57 else 97 for c in v]
    with open(values, "a") as f:
        for _ in range(1500 if thorough else 250):
            n = rng.choice([3, 4, 4, 5])
            v = [rng.choice(alphabet) for _ in range(n)]
            f.write(json.dumps({"v": v, "h": harmless(v)}) + "\n")
        # classic payloads
        for payload in ["' OR '1'='1", "'; DROP TABLE logs; --", "a'/*", "x\\' OR 1=1 --", "$$;$$", "?;?", "a:b' or ''='", "é'é", "0) or (1=1", "1 or 1=1", "0;--", "what?", "k' or '1"]:
            v = [ord(c) for c in payload]
            f.write(json.dumps({"v": v, "h": harmless(v)}) + "\n")
    binp = ctx.build("storeconf")
    res = ctx.path("results.ndjson")
    ctx.run([binp, "-mode", "sqlshape", "-in", values, "-out", res, "-stats", ctx.path("stats.json"), "-sample", "500" if thorough else "80", "-seed", str(ctx.seed)], timeout=3000)
    st = json.load(open(ctx.path("stats.json")))
    if st["cases"] < 3000 or st["cases"] - st["rejected"] < 1500:
        raise Infra("vacuity guard: %d cases, %d rejected" % (st["cases"], st["rejected"]))
    # TLC on the sample
    sample = res + ".sample"
    o = ctx.tlc("SqlShapeObs", "SPECIFICATION OSpec\nCONSTANTS\n  MaxLen = 1\n  OutFile = \"unused\"\n  ResultFile = \"%s\"\n  MaxReport = 6\nPOSTCONDITION Post\nCHECK_DEADLOCK FALSE\n" % sample,
                "obs", workers=1, timeout=3000)
    if o["status"] != "ok" or "OBS-VERDICT" not in o["output"]:
        raise Infra("SqlShapeObs did not deliver a verdict (%s)" % o["status"])
    counts = dict((m.group(1), int(m.group(2))) for m in re.finditer(r'(\w+) \|-> (\d+)', o["output"].split("OBS-COUNTS", 1)[1]))
    nsample = sum(1 for _ in open(sample))
    if counts.get("Conf_TranscriptionAgrees", 0) > 0:
        raise Infra("the Go transcription of the automaton disagrees with SqlShape.tla on %d sampled statements" % counts["Conf_TranscriptionAgrees"])
    # verdict: every recorded line
    seen = set()
    for r in common.read_ndjson(res):
        if r["sameStructure"]:
            continue
        chars = "".join(sorted(set(c for c in r["value"] if c in "'\"\\-;?*/$")))
        sig = "C20_SameStructure@%s/%s" % (r["ep"], r["slot"].split("-in-")[0])
        if sig in seen:
            continue
        seen.add(sig)
        ctx.violation(sig, "the value %r in filter slot %s/%s changes the structure of the SQL: %s" % (r["value"], r["ep"], r["slot"], r.get("sql", "")[:500].replace("\n", " ")),
                      {"kind": "c20-value", "case": {"ep": r["ep"], "slot": r["slot"], "value": r["value"], "harmless": r["harmless"], "special_chars": chars}})
    ctx.coverage.update({
        "states": g.get("distinct", 0), "transitions": g.get("generated", 0), "traces_validated_against_impl": st["cases"],
        "evaluations": st["cases"], "distinct_nontrivial": st["cases"],
        "rule": "values = every string of length <= %d over {a : ' \" \\ - ; ? * / $ space e-acute 0 ( )} + a seeded sample of longer ones + classic payloads; each put into %d filter slots (address / account / source / destination / reference / timestamp / date / metadata key and value / balance asset, alone and inside $and / $or / $not) of the list, count and aggregate queries, with and without point-in-time; compared with the same query for the harmless twin; all distinct" % (3 if thorough else 2, st["slots"]),
        "rejected_as_invalid": st["rejected"], "structure_changed": st["structure_changed"], "lines_judged_by_tlc": nsample,
        "transcription_disagreements": counts.get("Conf_TranscriptionAgrees", 0), "by_slot": st["by_slot"], "samples": st["samples"][:2], "exhaustive": False,
    })
    ctx.assumptions += ["the SQL judged is the text reaching the database driver (bun interpolates bound arguments client-side with its own quoting; that quoting is therefore inside the check)",
                        "standard_conforming_strings = on (PostgreSQL default): backslash is an ordinary character in '...' literals",
                        "all lines are judged by a Go transcription of SqlShape.tla's automaton; TLC judges a seeded sample and every flagged line and must agree"]


def replay(ctx, path):
    art = json.load(open(path))
    c = art["replay"]["case"]
    values = ctx.path("values.ndjson")
    with open(values, "w") as f:
        f.write(json.dumps({"v": [ord(x) for x in c["value"]], "h": [ord(x) for x in c["harmless"]]}) + "\n")
    binp = ctx.build("storeconf")
    res = ctx.path("results.ndjson")
    ctx.run([binp, "-mode", "sqlshape", "-in", values, "-out", res, "-stats", ctx.path("stats.json"), "-sample", "1000"], timeout=300)
    for r in common.read_ndjson(res):
        if not r["sameStructure"] and r["slot"] == c["slot"] and r["ep"] == c["ep"]:
            ctx.violation(art["signature"], "structure changed", art["replay"])
    ctx.coverage.update({"states": 1, "transitions": 1, "traces_validated_against_impl": 19, "samples": [c]})
