"""C19 - read-only mode executes no write. Router.tla over the route table extracted from the real router (chi.Walk);
TLC enumerates every (route pattern x method x variant) request; each is served by the real api.NewRouter in read-only
and in read-write mode over a recording backend; RouterObs.tla (TLC) judges the recorded backend calls."""
import json, os, re
import common
from common import Infra

LEVEL = "model_checking"

METHODS = ["GET", "HEAD", "OPTIONS", "POST", "PUT", "PATCH", "DELETE", "TRACE", "CONNECT", "get", "post", "QUERY"]
VARIANTS = ["plain", "override-header", "override-header:DELETE", "override-header:PUT", "override-query", "dry-run-query", "dry-run-yes", "dry-run-only", "preview-only", "force-query", "trailing-slash", "double-slash"]


def serve(ctx):
    """Extract the route table, let TLC enumerate the requests, serve them on the real router (read-only and
    read-write), let RouterObs judge. Returns (tlc result, model_violation, stats, found, lines)."""
    binp = ctx.build("apiconf")
    routes = ctx.path("routes.ndjson")
    ctx.run([binp, "-mode", "routes", "-out", routes], timeout=300)
    table = common.read_ndjson(routes)
    if len(table) < 30 or not any(r["write"] for r in table):
        raise Infra("route table extraction looks wrong: %d routes" % len(table))
    cases = ctx.path("cases.ndjson")
    cfg = ("SPECIFICATION Spec\nCONSTANTS\n  RouteFile = \"%s\"\n  OutFile = \"%s\"\n  Methods = {%s}\n  Variants = {%s}\n"
           "INVARIANTS NoWriteWhenReadOnly WriteRoutesAreRejected WritesReachable\nPOSTCONDITION Emit\nCHECK_DEADLOCK FALSE\n") % (
        routes, cases, ", ".join('"%s"' % m for m in METHODS), ", ".join('"%s"' % v for v in VARIANTS))
    g = ctx.tlc("Router", cfg, "router", workers=4, timeout=900)
    model_violation = None
    if g["status"] == "invariant":
        # the extracted route table itself admits a write in read-only mode: still replay, the real router decides
        model_violation = g["invariant"]
        cfg2 = cfg.replace("INVARIANTS NoWriteWhenReadOnly WriteRoutesAreRejected WritesReachable\n", "")
        g = ctx.tlc("Router", cfg2, "router-emit", workers=4, timeout=900)
    if g["status"] != "ok" or not os.path.exists(cases):
        raise Infra("Router.tla did not emit cases (%s)" % g["status"])
    res = ctx.path("results.ndjson")
    ctx.run([binp, "-mode", "c19", "-in", cases, "-out", res, "-stats", ctx.path("stats.json")], timeout=900)
    st = json.load(open(ctx.path("stats.json")))
    for m in ("CreateTransaction", "RevertTransaction", "SaveMeta", "DeleteMetadata"):
        if st["writes_reached_without_read_only"].get(m, 0) == 0:
            raise Infra("vacuity guard: %s never reached without read-only mode" % m)
    o = ctx.tlc("RouterObs", "SPECIFICATION OSpec\nCONSTANTS\n  ResultFile = \"%s\"\n  MaxReport = 8\nPOSTCONDITION Post\nCHECK_DEADLOCK FALSE\n" % res,
                "obs", workers=1, timeout=900)
    if o["status"] != "ok" or "OBS-VERDICT" not in o["output"]:
        raise Infra("RouterObs did not deliver a verdict (%s)" % o["status"])
    verdict = o["output"].split("OBS-VERDICT", 1)[1].split("OBS-COUNTS")[0]
    found = [(m.group(1), int(m.group(2))) for m in re.finditer(r'<<"(\w+)", (\d+)>>', verdict)]
    lines = common.read_ndjson(res)
    st["routes_extracted"] = len(table)
    st["write_routes"] = sum(1 for r in table if r["write"])
    return g, model_violation, st, found, lines


def preview_part(ctx):
    """C14 at the HTTP boundary: the preview flag of each API version reaches the backend as DryRun."""
    g, model_violation, st, found, lines = serve(ctx)
    seen = set()
    for inv, l in found:
        if inv != "C14_PreviewFlagReachesBackend":
            continue
        r = lines[l - 1]
        sig = "C14_PreviewFlagReachesBackend@%s %s %s [%s]" % (r["ver"], r["method"], r["pattern"], r["variant"])
        if sig in seen:
            continue
        seen.add(sig)
        ctx.violation(sig, "%s %s (%s) with its preview flag set to true (variant %s) reached the backend as a real write: %s" % (
            r["method"], r["pattern"], r["ver"], r["variant"], r["rw"]),
            {"kind": "c19-request", "case": {k: r[k] for k in ("ver", "pattern", "method", "variant", "expRO", "expRW")}})
    flagged = [r for r in lines if not r["bulk"] and (r["variant"] == "dry-run-query" or (r["ver"] == "v2" and r["variant"] == "dry-run-only") or (r["ver"] == "v1" and r["variant"] == "preview-only"))]
    dry = sum(1 for r in flagged if r["rw"]["dryWrites"] > 0)
    if dry < 8:
        raise Infra("vacuity guard: only %d flagged requests reached the backend as previews" % dry)
    ctx.coverage["http_preview_part"] = {"requests_with_own_preview_flag": len(flagged), "reached_backend_as_preview": dry,
                                         "rule": "every write route of both API versions x every method, with dryRun=true (v2) / preview=true (v1) alone and together; the bulk endpoints take no such flag and are left out"}


def run(ctx):
    g, model_violation, st, found, lines = serve(ctx)
    drift = 0
    for inv, l in found:
        r = lines[l - 1]
        if inv == "C19_NoWriteWhenReadOnly":
            sig = "C19_NoWrite@%s %s %s [%s] -> %s" % (r["ver"], r["method"], r["pattern"], r["variant"], "+".join(sorted(set(r["ro"]["calls"]))))
            ctx.violation(sig, "read-only router executed %s for %s %s (%s, variant %s), status %d" % (
                r["ro"]["calls"], r["method"], r["pattern"], r["ver"], r["variant"], r["ro"]["status"]),
                {"kind": "c19-request", "case": {k: r[k] for k in ("ver", "pattern", "method", "variant", "expRO", "expRW")}})
        elif inv.startswith("Conf_"):
            drift += 1
    if model_violation:
        ctx.notes.append("MODEL: the extracted route table violates %s (a mutating handler is registered under a method the middleware lets through)" % model_violation)
    if drift:
        ctx.notes.append("SPEC-DRIFT: %d requests are served differently from Router.tla (route table / middleware order)" % drift)
    ctx.coverage.update({
        "states": g.get("distinct", 0), "transitions": g.get("generated", 0), "traces_validated_against_impl": st["requests"] * 2,
        "evaluations": st["requests"], "distinct_nontrivial": st["requests"],
        "rule": "requests = every route pattern of both API versions extracted with chi.Walk from the running router (plus an unregistered one) x %d methods x %d variants (method-override headers/query, dry-run flags, trailing/double slash), each with a valid write body for its route; all distinct; each served by the real router in read-only and read-write mode" % (len(METHODS), len(VARIANTS)),
        "routes_extracted": st["routes_extracted"], "write_routes": st["write_routes"],
        "writes_reached_without_read_only": st["writes_reached_without_read_only"], "rejected_in_read_only": st["rejected_in_read_only"],
        "spec_drift": drift, "samples": st["samples"][:2], "exhaustive": True,
    })
    ctx.assumptions += ["a write = a call reaching backend.Ledger.CreateTransaction/RevertTransaction/SaveMeta/DeleteMetadata with DryRun=false",
                        "v1's auto-create middleware may call CreateLedger on reads; the statement does not forbid it (reported in evidence only)"]


def replay(ctx, path):
    art = json.load(open(path))
    binp = ctx.build("apiconf")
    cases = ctx.path("cases.ndjson")
    with open(cases, "w") as f:
        f.write(json.dumps(art["replay"]["case"]) + "\n")
    res = ctx.path("results.ndjson")
    ctx.run([binp, "-mode", "c19", "-in", cases, "-out", res, "-stats", ctx.path("stats.json")], timeout=300)
    r = common.read_ndjson(res)[0]
    if r["ro"]["writes"] > 0:
        ctx.violation(art["signature"], "read-only router executed %s" % r["ro"]["calls"], art["replay"])
    ctx.coverage.update({"states": 1, "transitions": 1, "traces_validated_against_impl": 1, "samples": [r]})
