"""Per-property claims for MANIFEST.json (bin/mkmanifest)."""
NOTES = ("Model-based verification with explicit TLA+ specifications (see DESIGN.md). Every check: TLC model-checks the "
         "specification (design switches = what the code does; each negative design must be rejected), TLC-generated behaviours "
         "are replayed on the real code, and TLC judges the recorded observations. Exit 2 = infrastructure failure, never a verdict.")
NOT_APPLICABLE = {}
ENGINE_TECH = "TLA+ spec (Engine.tla) + TLC model checking; spec->code replay under a gated scheduler; TLC evaluates the property predicates on the recorded history (EngineObs.tla) and validates step traces (EngineTrace.tla)"
ENGINE_NOTE = ("Bounded: 3-4 concurrent requests drawn from the palettes of EngineMC.tla, at most one crash. The store in the loop is the harness "
               "store (command.Store contract by log replay), not PostgreSQL. Crash = failing InsertLogs (the code's own fatal path) or an abandoned idle commander. "
               "Trusted: verif yield points, harness scheduler/store, TLC.")
def eng(what):
    return {"category": "model_checking", "design_ref": "DESIGN.md §4 Engine family", "note": ENGINE_NOTE, "technique": ENGINE_TECH,
            "text": what + " Engine.tla models the Commander at the grain of its yield points (reference/idempotency reservations, lock manager, balance read, id allocation, chaining, batch hand-off, persistence, acknowledgement, publication, crash/restart); TLC checks it exhaustively for 3 (thorough: 4) requests, every negative design must be rejected, counterexample schedules and simulated behaviours are replayed on the real Commander with a gated store, and the property predicates (EngineProps.tla) are evaluated by TLC on the durable log, the responses and the published events actually produced."}
NS_TECH = "TLA+ spec (Numscript.tla: source-level semantics + laws) checked and enumerated by TLC; every enumerated case replayed through the real compiler+VM; TLC evaluates the laws and equality with the reference on the real outcomes (NumscriptObs.tla)"
NS_NOTE = ("Bounded: program families of NumscriptGen.tla (sources and destinations nested to depth 1-2 exhaustively, one level deeper by RandomSubset; amounts 0..7; balances incl. 0 and negative); "
           "values beyond 64 bits are reached by re-running portion-free cases with every amount multiplied by factors around 2^61..2^70 and judging those outcomes with the same predicates. "
           "Postings are compared after dropping zero-amount postings and merging adjacent postings with identical endpoints. Trusted: the AST->text printer of the harness, TLC.")
def ns(what):
    return {"category": "model_checking", "design_ref": "DESIGN.md §4 Numscript family", "note": NS_NOTE, "technique": NS_TECH,
            "text": what + " Numscript.tla defines what a program text means (fundings drained front to back, kept amounts withheld from the last sources, portions floored with leftover units to the earliest entries, static rules); TLC checks the laws on this reference for every enumerated case and emits the cases; each is rendered to Numscript and executed by the real compiler and VM (twice, and scaled); TLC judges every real outcome."}
CHECKS = {
 "C01": ns("Decides that replaying the postings of an accepted script in order never takes a non-world account below minus its granted overdraft, and that an uncoverable send rejects the whole transaction with insufficient funds."),
 "C03": ns("Decides per-destination and per-source totals (caps, shares, kept amounts, ordered draining) and the moved amount of every send against the reference semantics; no negative posting."),
 "C08": ns("Decides exact equality (fixed normalisation) of postings and outcome class between the real compile+run and the reference semantics, that statically invalid programs are refused and not run, and exactness on >64-bit values."),
 "C12": ns("Decides that every enumerated program (well-formed or not) terminates without panic or hang in a defined outcome class and gives the same outcome when executed again."),
 "C15": {"category": "model_checking", "design_ref": "DESIGN.md §4 C15",
         "text": "Lock.tla (one action per critical section of DefaultLocker) is model-checked exhaustively by TLC for 3-4 requests with arbitrary read/write sets over 2 accounts (exclusion, no leaked lock, quiescent progress, and liveness under fairness); TLC-generated behaviours are replayed on the real DefaultLocker under a gated scheduler (grant/cancel coincidences repeated so that both select branches are taken) and free-running executions are recorded through hooks; TLC evaluates the C15 predicates on the observed lock tables (LockObs.tla) and validates the traces against the specification (LockTrace.tla).",
         "note": "Bounded: 3-4 requests, 2-3 accounts. Liveness is established on the specification; on the code it is checked as quiescent progress and absence of hung Lock calls. Trusted: the verif hooks in lock.go, the harness scheduler, TLC.",
         "technique": "TLA+ spec (Lock.tla) + TLC model checking incl. liveness; spec->code replay and code->spec trace validation"},
 "C02": eng("Decides that no schedule lets two requests spend the same funds: invariant SerialFunds (every accepted transaction is covered at its log position) over all interleavings of lock, balance-read, append and persistence steps, sources named literally, by variable and through metadata, racing reverts."),
 "C05": eng("Decides ids 0..n-1 in insertion order, hash of each entry recomputed from the persisted predecessor, transaction ids sequential in log order, across every interleaving of allocation/chaining/hand-off/persistence and a crash at any step."),
 "C06": eng("Decides acknowledged => persisted with the same content, rejected => no entry, at most one entry per request and no entry without a producer, including store failures and crashes before/after persistence."),
 "C07": eng("Decides at most one entry per idempotency key and identical outcome for every successful duplicate, for concurrent duplicates of each kind of write and retries after a crash."),
 "C10": eng("Decides at most one revert entry per target, revert postings = reverse of the target's, and an unforced revert never overdrawing (SerialFunds), for racing reverts and reverts racing with spends."),
 "C11": eng("Decides at most one committed transaction per reference with disjoint sources (so account locks do not mask the race) and competitors that succeed or fail."),
 "C14": eng("Decides that previews leave no entry, consume no transaction id and publish nothing, at every position among concurrent real writes."),
 "C16": eng("Decides that every published event corresponds to a durable entry with the same content (revert events name both transactions correctly), and that every acknowledged write is published."),
}
