"""C14 - decided with Engine.tla (see engine.py)."""
import engine
LEVEL = engine.LEVEL
def run(ctx): engine.run_prop(ctx, "C14")
def replay(ctx, path): engine.replay_prop(ctx, "C14", path)
