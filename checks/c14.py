"""C14 - decided with Engine.tla (see engine.py); plus, at the HTTP boundary, that the preview flag of each API
version reaches the backend as DryRun (Router.tla request space, c19.preview_part)."""
import json
import engine, c19, common
LEVEL = engine.LEVEL
def run(ctx):
    engine.run_prop(ctx, "C14")
    c19.preview_part(ctx)
def replay(ctx, path):
    art = json.load(open(path))
    if art["replay"].get("kind") == "c19-request":
        binp = ctx.build("apiconf")
        cases = ctx.path("cases.ndjson")
        with open(cases, "w") as f:
            f.write(json.dumps(art["replay"]["case"]) + "\n")
        res = ctx.path("results.ndjson")
        ctx.run([binp, "-mode", "c19", "-in", cases, "-out", res, "-stats", ctx.path("stats.json")], timeout=300)
        r = common.read_ndjson(res)[0]
        if r["rw"]["writes"] > 0:
            ctx.violation(art["signature"], "reached the backend as a real write: %s" % r["rw"]["calls"], art["replay"])
        ctx.coverage.update({"states": 1, "transitions": 1, "traces_validated_against_impl": 1})
        return
    engine.replay_prop(ctx, "C14", path)
