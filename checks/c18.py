"""C18 - bulk requests run in order, answer position by position, stop at a failure.
Bulk.tla (TLC: every element sequence up to a bound, both flag values, design switches) ;
every enumerated bulk POSTed to the real v2 router over a real Commander ; BulkObs.tla (TLC) judges
the recorded backend calls, results and status."""
import json, os, re
import common
from common import Infra

LEVEL = "model_checking"


def design():
    d = json.load(open(os.path.join(common.SPEC, "design.json")))
    return d.get("UnknownYieldsResult", False), d.get("MalformedYieldsResult", False)


def tla(b):
    return "TRUE" if b else "FALSE"


def cfg(maxlen, out, unk, mal, invs=True, per=True):
    return ("SPECIFICATION Spec\nCONSTANTS\n  MaxLen = %d\n  OutFile = \"%s\"\n  UnknownYieldsResult = %s\n  MalformedYieldsResult = %s\n  ParamsPerElement = %s\n%s"
            "POSTCONDITION Emit\nCHECK_DEADLOCK FALSE\n") % (maxlen, out, tla(unk), tla(mal), tla(per),
                                                            "INVARIANTS InOrder OneResultPerElement StopsAtFailure SignalsFailure ElementsIndependent\n" if invs else "")


def shape(r):
    kinds = [e["kind"] for e in r["bulk"]]
    feats = []
    if "UNKNOWN" in kinds:
        feats.append("unknown-action")
    if "MALFORMED" in kinds:
        feats.append("malformed-data")
    if r.get("pat", "none") != "none":
        feats.append("attrs-" + r["pat"])
    if not feats:
        feats.append("plain")
    return "+".join(feats) + ("/continue" if r["cont"] else "/stop")


def run(ctx):
    thorough = ctx.tier == "thorough"
    maxlen = 4 if thorough else 3
    cases = ctx.path("cases.ndjson")
    g = ctx.tlc("Bulk", cfg(maxlen, cases, True, True), "strict", workers=8, timeout=1800)
    if g["status"] != "ok":
        raise Infra("Bulk.tla (repaired design) violates %s - specification error" % g.get("invariant"))
    rejected = []
    for unk, mal in ((False, True), (True, False)):
        n = ctx.tlc("Bulk", cfg(2, ctx.path("neg.ndjson"), unk, mal), "neg-%s-%s" % (unk, mal), workers=4, timeout=600)
        if n["status"] != "invariant":
            raise Infra("negative design (unknown=%s malformed=%s) not rejected (vacuity guard)" % (unk, mal))
        rejected.append("UnknownYieldsResult=%s,MalformedYieldsResult=%s:%s" % (unk, mal, n["invariant"]))
    n = ctx.tlc("Bulk", cfg(2, ctx.path("neg.ndjson"), True, True, per=False), "neg-carry", workers=4, timeout=600)
    if n["status"] != "invariant" or n.get("invariant") != "ElementsIndependent":
        raise Infra("negative design (parameters carried over between elements) not rejected (vacuity guard)")
    rejected.append("ParamsPerElement=FALSE:%s" % n["invariant"])
    binp = ctx.build("apiconf")
    res = ctx.path("results.ndjson")
    ctx.run([binp, "-mode", "c18", "-in", cases, "-out", res, "-stats", ctx.path("stats.json")], timeout=2400)
    st = json.load(open(ctx.path("stats.json")))
    o = ctx.tlc("BulkObs", "SPECIFICATION OSpec\nCONSTANTS\n  ResultFile = \"%s\"\n  MaxReport = 6\nPOSTCONDITION Post\nCHECK_DEADLOCK FALSE\n" % res,
                "obs", workers=1, timeout=2400)
    if o["status"] != "ok" or "OBS-VERDICT" not in o["output"]:
        raise Infra("BulkObs did not deliver a verdict (%s)" % o["status"])
    verdict = o["output"].split("OBS-VERDICT", 1)[1].split("OBS-COUNTS")[0]
    found = [(m.group(1), int(m.group(2))) for m in re.finditer(r'<<"(\w+)", (\d+)>>', verdict)]
    counts = dict((m.group(1), int(m.group(2))) for m in re.finditer(r'(\w+) \|-> (\d+)', o["output"].split("OBS-COUNTS", 1)[1]))
    lines = common.read_ndjson(res)
    drift = 0
    for inv, l in found:
        r = lines[l - 1]
        if inv.startswith("Conf_"):
            drift += 1
            continue
        sig = "%s@%s" % (inv, shape(r))
        ctx.violation(sig, "%s fails on the real bulk endpoint: bulk %s continueOnFailure=%s -> status %s, results %s, backend calls %s" % (
            inv, json.dumps(r["bulk"]), r["cont"], r["status"], json.dumps(r["results"]), json.dumps(r["calls"])),
            {"kind": "c18-bulk", "case": {"bulk": r["bulk"], "cont": r["cont"], "pat": r.get("pat", "none")}})
    if drift:
        ctx.notes.append("SPEC-DRIFT: %d backend calls did not fail/succeed as the harness planned them" % counts.get("Conf_CallOutcomeAsPlanned", drift))
    ctx.coverage.update({
        "states": g.get("distinct", 0), "transitions": g.get("generated", 0), "traces_validated_against_impl": st["bulks"],
        "evaluations": st["bulks"], "distinct_nontrivial": st["bulks"],
        "rule": "bulks = every sequence of 1..%d elements over {CREATE, ADD_META, REVERT, DEL_META} x {succeeds, fails} + UNKNOWN action + MALFORMED data, x continueOnFailure, x which positions carry attributes of their own (idempotency key, and for CREATE reference / timestamp / an extra metadata key): none, all (one key per action kind), the odd, the even ones; all distinct; each POSTed to the real router over a real Commander" % maxlen,
        "negative_designs_rejected": rejected, "elements_by_kind": st["elements_by_kind"], "predicate_failures": counts,
        "samples": st["samples"][:2], "exhaustive": True,
    })
    ctx.assumptions += ["element failures are real (insufficient funds, unknown transaction) and observed at the backend boundary by a recording wrapper around the Commander",
                        "the order of execution is the order of the calls reaching backend.Ledger"]


def replay(ctx, path):
    art = json.load(open(path))
    binp = ctx.build("apiconf")
    cases = ctx.path("cases.ndjson")
    with open(cases, "w") as f:
        f.write(json.dumps(art["replay"]["case"]) + "\n")
    res = ctx.path("results.ndjson")
    ctx.run([binp, "-mode", "c18", "-in", cases, "-out", res, "-stats", ctx.path("stats.json")], timeout=300)
    o = ctx.tlc("BulkObs", "SPECIFICATION OSpec\nCONSTANTS\n  ResultFile = \"%s\"\n  MaxReport = 6\nPOSTCONDITION Post\nCHECK_DEADLOCK FALSE\n" % res, "obs", workers=1)
    verdict = o["output"].split("OBS-VERDICT", 1)[1].split("OBS-COUNTS")[0]
    lines = common.read_ndjson(res)
    for m in re.finditer(r'<<"(\w+)", (\d+)>>', verdict):
        if not m.group(1).startswith("Conf_"):
            ctx.violation("%s@%s" % (m.group(1), shape(lines[int(m.group(2)) - 1])), m.group(1), art["replay"])
    ctx.coverage.update({"states": 1, "transitions": 1, "traces_validated_against_impl": len(lines), "samples": lines[:1]})
