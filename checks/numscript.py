"""Numscript family: C01 C03 C08 C12. Numscript.tla = source-level semantics + laws; NumscriptGen.tla enumerates
bounded program families (TLC evaluates every case and checks the laws on the reference semantics);
harness/cmd/nsconf runs every case through the real compiler + VM; NumscriptObs.tla (TLC) judges the results."""
import json, os, re
import common
from common import Infra

LEVEL = "model_checking"

# family -> (quick sample size, thorough sample size)  (only used by the sampled "deep" families)
FAMILIES = {"src1": (0, 0), "src2": (150, 1500), "dst1": (0, 0), "dst2": (60, 600), "prog2": (0, 0), "prog": (0, 0), "pct": (0, 0), "collide": (0, 0), "src3": (0, 0), "pvar": (0, 0), "corrupt": (20000, 300000)}

PROPS = {
    "C01": dict(families=["src1", "src2", "src3", "prog2", "prog", "collide"], invs=["C01_NeverOverdrawn", "C01_RejectedWhole"]),
    "C03": dict(families=["pvar", "dst1", "dst2", "src1", "src3", "pct", "prog"], invs=["C03_NoNegative", "C03_PerDestination", "C03_PerSource", "C03_Amount", "C03_SameDecision"]),
    "C08": dict(families=["pvar", "src1", "src2", "src3", "dst1", "dst2", "prog2", "prog", "pct", "collide"], invs=["C08_SameAsSource", "C08_SameMetadata", "C08_RefusedNotRun", "C08_BigValues"]),
    "C12": dict(families=["pvar", "src1", "src2", "src3", "dst1", "dst2", "prog2", "prog", "pct", "collide", "corrupt"], invs=["C12_NoPanicNoHang", "C12_DefinedClass", "C12_Repeatable"]),
}


def gen_cfg(family, outfile, n, part=0):
    return ("SPECIFICATION Spec\nCONSTANTS\n  Family = \"%s\"\n  OutFile = \"%s\"\n  SampleN = %d\n  Half = %d\n"
            "INVARIANTS LawC01 LawNoNegative LawC03Amount\nPOSTCONDITION Emit\nCHECK_DEADLOCK FALSE\n") % (family, outfile, n, part)


# the two big exhaustive families are generated, replayed and judged in three parts (by send amount) that run in parallel
SPLIT = {"src1": ("src1#1", "src1#2", "src1#3"), "dst1": ("dst1#1", "dst1#2", "dst1#3")}


def obs_cfg(resfile):
    return "SPECIFICATION OSpec\nCONSTANTS\n  ResultFile = \"%s\"\n  MaxReport = 5\nPOSTCONDITION Post\nCHECK_DEADLOCK FALSE\n" % resfile


def shape(r):
    if "kinds" in r:
        return "%s/exp=%s/program:%s" % (r["real"]["class"].split(":")[0], r["exp"]["class"], r["kinds"])
    s = r["sends"][0]
    def dkind(d):
        k = d["t"]
        if any(x["t"] == "kept" for x in d.get("ds", [])):
            k += "+kept"
        return k
    real = r["real"]["class"].split(":")[0]
    return "%s/exp=%s/src=%s/dst=%s%s" % (real, r["exp"]["class"], s["src"]["t"], dkind(s["dst"]),
                                          "/multi" if len(r["sends"]) > 1 else "")


def harness_or_crash(ctx, argv, fam):
    """Run the replay harness. The cases of a family are executed concurrently through one shared compilation cache,
    as the engine executes requests: if the Go runtime kills the process (memory fault, fatal error, unrecovered
    panic in a goroutine of the implementation) with the crashing frame inside /repo, and it does so again when the
    harness is started afresh, that is the engine crashing on these programs - a verdict, not an infrastructure
    failure. Returns None, or (what, function, location)."""
    sites = []
    for attempt in range(3):
        try:
            ctx.run(argv, timeout=2400)
            return None if not sites else _unconfirmed(ctx, fam, sites)
        except Infra as e:
            site = common.go_crash_site(getattr(e, "stderr", "") or "")
            if site is None or not site[2].startswith("/repo/"):
                raise
            sites.append(site)
            if len(sites) >= 2:
                return sites[0]
    return sites[0]


def _unconfirmed(ctx, fam, sites):
    ctx.notes.append("UNCONFIRMED: the replay harness of family %s crashed once inside %s (%s) and not when started again; dropped" % (fam, sites[0][1], sites[0][2]))
    return None


def family_run(ctx, fam, binp):
    thorough = ctx.tier == "thorough"
    unit, part = fam, 0
    if "#" in fam:
        fam, p = fam.split("#")
        part = int(p)
    n = FAMILIES[fam][1 if thorough else 0]
    cases = ctx.path("cases-%s.ndjson" % unit.replace("#", "-"))
    if fam == "corrupt":
        # corrupted renderings of the model's programs: generated from the cases of two families
        g = ctx.tlc("NumscriptProgGen", "SPECIFICATION Spec\nCONSTANTS\n  OutFile = \"%s\"\n  SampleN = 0\nPOSTCONDITION Emit\nCHECK_DEADLOCK FALSE\n" % cases,
                    "gen-corrupt-a", workers=4, timeout=2400)
        cases2 = ctx.path("cases-corrupt-b.ndjson")
        g2 = ctx.tlc("NumscriptGen", gen_cfg("dst1", cases2, 0, 1).replace("INVARIANTS LawC01 LawNoNegative LawC03Amount\n", ""), "gen-corrupt-b", workers=4, timeout=2400)
        if g["status"] != "ok" or g2["status"] != "ok":
            raise Infra("generation for the corrupt family failed")
        with open(cases, "a") as f:
            f.write(open(cases2).read())
        res = ctx.path("results-%s.ndjson" % fam)
        ctx.run([binp, "-in", cases, "-corrupt", str(n), "-seed", str(ctx.seed), "-out", res, "-stats", ctx.path("stats-%s.json" % fam)], timeout=2400)
        o = ctx.tlc("NumscriptObs", obs_cfg(res), "obs-" + fam, workers=1, timeout=2400)
        if o["status"] != "ok" or "OBS-VERDICT" not in o["output"]:
            raise Infra("NumscriptObs did not deliver a verdict on %s (%s)" % (fam, o["status"]))
        verdict = o["output"].split("OBS-VERDICT", 1)[1].split("OBS-COUNTS")[0]
        found = [(m.group(1), int(m.group(2))) for m in re.finditer(r'<<"(\w+)", (\d+)>>', verdict)]
        counts = dict((m.group(1), int(m.group(2))) for m in re.finditer(r'(\w+) \|-> (\d+)', o["output"].split("OBS-COUNTS", 1)[1]))
        return fam, {"distinct": 0}, res, found, counts, json.load(open(ctx.path("stats-%s.json" % fam)))
    if fam == "prog":
        g = ctx.tlc("NumscriptProgGen", "SPECIFICATION Spec\nCONSTANTS\n  OutFile = \"%s\"\n  SampleN = %d\nINVARIANTS LawRejectedWhole LawNeverOverdrawn\nPOSTCONDITION Emit\nCHECK_DEADLOCK FALSE\n" % (cases, n),
                    "gen-" + fam, workers=4, timeout=2400, extra=["-seed", str(ctx.seed)])
    else:
        g = ctx.tlc("NumscriptGen", gen_cfg(fam, cases, n, part), "gen-" + unit.replace("#", "-"), workers=4, timeout=2400,
                    extra=["-seed", str(ctx.seed)])
    if g["status"] != "ok":
        raise Infra("Numscript reference semantics violates its own law %s on family %s - specification error" % (g.get("invariant"), fam))
    if not os.path.exists(cases) or os.path.getsize(cases) == 0:
        raise Infra("no cases emitted for family " + fam)
    tag = unit.replace("#", "-")
    res = ctx.path("results-%s.ndjson" % tag)
    crash = harness_or_crash(ctx, [binp, "-in", cases, "-out", res, "-stats", ctx.path("stats-%s.json" % tag)], fam)
    if crash:
        return fam, g, None, [("C12_NoPanicNoHang", crash)], {"C12_NoPanicNoHang": 1}, {"cases": 0, "distinct_programs": 0, "classes": {}}
    o = ctx.tlc("NumscriptObs", obs_cfg(res), "obs-" + tag, workers=1, timeout=2400)
    if o["status"] != "ok" or "OBS-VERDICT" not in o["output"]:
        raise Infra("NumscriptObs did not deliver a verdict on %s (%s)" % (fam, o["status"]))
    verdict = o["output"].split("OBS-VERDICT", 1)[1].split("OBS-COUNTS")[0]
    found = [(m.group(1), int(m.group(2))) for m in re.finditer(r'<<"(\w+)", (\d+)>>', verdict)]
    counts = dict((m.group(1), int(m.group(2))) for m in re.finditer(r'(\w+) \|-> (\d+)', o["output"].split("OBS-COUNTS", 1)[1]))
    return fam, g, res, found, counts, json.load(open(ctx.path("stats-%s.json" % tag)))


def run_prop(ctx, prop):
    P = PROPS[prop]
    binp = ctx.build("nsconf")
    from concurrent.futures import ThreadPoolExecutor
    units = [u for f in P["families"] for u in SPLIT.get(f, (f,))]
    # the long ones first
    units.sort(key=lambda u: 0 if u.startswith(("dst1", "src1", "prog")) else 1)
    with ThreadPoolExecutor(max_workers=9) as pool:
        cache_job = pool.submit(cache_part, ctx, binp) if prop == "C08" else None
        outs = list(pool.map(lambda f: family_run(ctx, f, binp), units))
        if cache_job:
            cache_job.result()
    total = distinct = states = 0
    classes = {}
    samples = []
    allcounts = {}
    for fam, g, res, found, counts, st in outs:
        total += st["cases"]
        distinct += st["distinct_programs"]
        states += g.get("distinct", 0)
        for k, v in st["classes"].items():
            k = k.split(":")[0]
            classes[k] = classes.get(k, 0) + v
        samples += st.get("samples", [])[:1]
        for k, v in counts.items():
            allcounts[k] = allcounts.get(k, 0) + v
        mine = [(n, l) for (n, l) in found if n in P["invs"]]
        if res is None:
            # the harness process itself was killed inside the implementation (see harness_or_crash)
            what, fn, loc = found[0][1]
            if "C12_NoPanicNoHang" in P["invs"] or prop == "C08":
                ctx.violation("C12_NoPanicNoHang@process-crash:%s" % fn.split("/")[-1],
                              "executing the programs of family %s concurrently through the shared compilation cache killed the process: %s in %s (%s); reproduced on a fresh start" % (fam, what, fn, loc),
                              {"kind": "numscript-crash", "family": fam})
            continue
        if mine:
            lines = common.read_ndjson(res)
            for inv, l in mine:
                r = lines[l - 1]
                sig = "%s@%s" % (inv, shape(r))
                what = "%s fails on the real compiler+VM: program %r balances %s -> real %s ; the source defines %s" % (
                    inv, r["text"], json.dumps(r["bal"]), json.dumps(r["real"])[:300], json.dumps(r["exp"])[:300])
                for extra in ("spelling", "unit", "scaled"):
                    if r.get(extra):
                        what += " ; %s: %s" % (extra, str(r[extra])[:400])
                ctx.violation(sig, what, {"kind": "numscript-case", "family": fam,
                                          "case": {k: r[k] for k in ("sends", "bal", "exp", "k", "expK", "binding") if k in r}, "text": r["text"],
                                          "vars": r.get("vars", {})})
    if total < 1000:
        raise Infra("only %d cases replayed" % total)
    if classes.get("ok", 0) < 100 or classes.get("insufficient", 0) < 10 or classes.get("compile-error", 0) < 10:
        raise Infra("vacuity guard: outcome classes too thin: %s" % classes)
    ctx.coverage.update({
        "states": states, "transitions": states, "traces_validated_against_impl": total,
        "evaluations": total, "distinct_nontrivial": distinct,
        "rule": "cases = (program AST, balance table) enumerated by TLC from the bounded families %s of NumscriptGen.tla (exhaustive at depth <= 1-2, RandomSubset beyond); each rendered to Numscript text and run through the real compile+VM pipeline (twice, plus once scaled by 2^70 when it has no portions); distinct = distinct program texts" % P["families"],
        "real_outcome_classes": classes, "predicate_failures": {k: v for k, v in allcounts.items() if k in P["invs"]},
        "samples": samples[:3], "exhaustive": all(FAMILIES[f] == (0, 0) for f in P["families"]),
        "sampled_part": "family `corrupt` (when listed) = seeded token/byte corruptions of the model's program texts and variable values; TLA+ does not predict their outcome, only no-panic / no-hang / reported-error / repeatability is judged",
        "deciding_predicates": P["invs"],
    })
    ctx.assumptions += [
        "postings are compared after dropping zero-amount postings and merging adjacent postings with identical source and destination (DESIGN.md, fixed comparison relation)",
        "amounts beyond 64 bits are reached by re-running portion-free cases scaled by 2^70 (metamorphic), not by TLC integers",
        "the Numscript printer of the harness (AST -> text) is trusted",
    ]


def cache_part(ctx, binp):
    """C08, last sentence: the compilation cache under every capacity and concurrent use."""
    thorough = ctx.tier == "thorough"
    cases = ctx.path("cache-cases.ndjson")
    g = ctx.tlc("Cache", "SPECIFICATION Spec\nCONSTANTS\n  Texts = {\"t1\", \"t2\", \"t3\", \"t4\", \"t5\", \"t6\"}\n  Caps = {1, 2, 3, 1024}\n  MaxLen = %d\n  OutFile = \"%s\"\nINVARIANTS SameAsFresh Bounded\nPOSTCONDITION Emit\nCHECK_DEADLOCK FALSE\n" % (5 if thorough else 4, cases),
                "cache", workers=4, timeout=900)
    if g["status"] != "ok":
        raise Infra("Cache.tla failed (%s)" % g["status"])
    res = ctx.path("cache-results.ndjson")
    ctx.run([binp, "-cache", "-in", cases, "-out", res, "-stats", ctx.path("cache-stats.json")], timeout=1800)
    st = json.load(open(ctx.path("cache-stats.json")))
    o = ctx.tlc("CacheObs", "SPECIFICATION OSpec\nCONSTANTS\n  ResultFile = \"%s\"\n  MaxReport = 3\nPOSTCONDITION Post\nCHECK_DEADLOCK FALSE\n" % res, "cache-obs", workers=1, timeout=900)
    if o["status"] != "ok" or "OBS-VERDICT" not in o["output"]:
        raise Infra("CacheObs did not deliver a verdict")
    verdict = o["output"].split("OBS-VERDICT", 1)[1].split("OBS-COUNTS")[0]
    lines = common.read_ndjson(res)
    for m in re.finditer(r'<<"(\w+)", (\d+)>>', verdict):
        r = lines[int(m.group(2)) - 1]
        ctx.violation("%s@cap=%s" % (m.group(1), "small" if r["cap"] < 100 else "large"),
                      "%s fails: a program obtained from command.Compiler (capacity %d, requests %s) does not behave like a fresh compilation of its text" % (m.group(1), r["cap"], r["reqs"]),
                      {"kind": "cache-sequence", "case": {"cap": r["cap"], "reqs": r["reqs"]}})
    ctx.coverage["cache_part"] = {"request_sequences": st["sequences"], "compiles": st["gets"], "states": g.get("distinct", 0),
                                  "rule": "every sequence of Compile requests of the stated length over 4 texts x capacities {1,2,3,1024}; each replayed sequentially and by 6 goroutines sharing the Compiler (4 rounds)"}


def replay_prop(ctx, prop, path):
    art = json.load(open(path))
    if art["replay"].get("kind") == "numscript-crash":
        fam, g, res, found, counts, st = family_run(ctx, art["replay"]["family"], ctx.build("nsconf"))
        if res is None:
            ctx.violation(art["signature"], "the process was killed again: %s" % (found[0][1],), art["replay"])
        ctx.coverage.update({"states": 1, "transitions": 1, "traces_validated_against_impl": st.get("cases", 0)})
        return
    cases = ctx.path("cases.ndjson")
    with open(cases, "w") as f:
        f.write(json.dumps(art["replay"]["case"]) + "\n")
    binp = ctx.build("nsconf")
    res = ctx.path("results.ndjson")
    ctx.run([binp, "-in", cases, "-out", res, "-stats", ctx.path("stats.json")], timeout=300)
    o = ctx.tlc("NumscriptObs", obs_cfg(res), "obs", workers=1, timeout=600)
    verdict = o["output"].split("OBS-VERDICT", 1)[1].split("OBS-COUNTS")[0]
    for m in re.finditer(r'<<"(\w+)", (\d+)>>', verdict):
        if m.group(1) in PROPS[prop]["invs"]:
            r = common.read_ndjson(res)[0]
            ctx.violation("%s@%s" % (m.group(1), shape(r)), "%s fails: real %s" % (m.group(1), json.dumps(r["real"])), art["replay"])
    ctx.coverage.update({"states": 1, "transitions": 1, "traces_validated_against_impl": 1, "samples": [art["replay"]["text"]]})
