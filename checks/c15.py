"""C15 - account locks are exclusive and are always eventually granted.
Lock.tla (TLC, exhaustive + liveness) ; LockGen.tla behaviours replayed on the real DefaultLocker ;
LockObs.tla = verdict on observed values ; LockTrace.tla = conformance."""
import json, os, shutil
import common
from common import Infra

LEVEL = "model_checking"


def design():
    return json.load(open(os.path.join(common.SPEC, "design.json")))


def strict_cfg(reqs, accts, cancel_design, max_cancel, liveness):
    return """SPECIFICATION %s
CONSTANTS
  Req = {%s}
  Acct = {%s}
  CancelDesign = "%s"
  MaxCancel = %d
INVARIANTS TypeOK Exclusion NoLeak Progress QueueIsWaiters
%s
CHECK_DEADLOCK FALSE
""" % ("FairSpec" if liveness else "Spec", ", ".join('"%s"' % r for r in reqs), ", ".join('"%s"' % a for a in accts),
       cancel_design, max_cancel, "PROPERTY EventuallyServed" if liveness else "")


def gen_cfg(outdir, cancel_design, maxlen):
    return """SPECIFICATION GenSpec
CONSTANTS
  Req = {"r1", "r2", "r3"}
  Acct = {"a", "b"}
  CancelDesign = "%s"
  MaxCancel = 2
  OutDir = "%s"
  MaxLen = %d
CHECK_DEADLOCK FALSE
""" % (cancel_design, outdir, maxlen)


def obs_cfg(trace):
    return """SPECIFICATION OSpec
CONSTANT TraceFile = "%s"
INVARIANTS ObsExclusion ObsNoLeak ObsProgress ObsNoHang
CHECK_DEADLOCK FALSE
""" % trace


def trace_cfg(trace, cancel_design):
    return """SPECIFICATION TraceSpec
CONSTANTS
  Req = {"r1", "r2", "r3", "r4", "r5", "r6", "r7", "r8"}
  Acct = {"a", "b", "c"}
  CancelDesign = "%s"
  MaxCancel = 99
  TraceFile = "%s"
INVARIANTS Exclusion Progress
CHECK_DEADLOCK TRUE
""" % (cancel_design, trace)


def split_executions(lines):
    """-> list of (start_index, [lines]) per execution (reset .. before next reset)"""
    out, cur, start = [], [], 0
    for i, l in enumerate(lines):
        if l.get("ev") == "reset":
            if cur:
                out.append((start, cur))
            cur, start = [], i
        cur.append(l)
    if cur:
        out.append((start, cur))
    return out


def signature(inv, excerpt):
    """Structural signature of a violation: invariant + the shape of the step at which it appears."""
    last = excerpt[-1]
    ev = last.get("ev")
    detail = ""
    if ev == "CancelSeen":
        r = last.get("r")
        was_granted = any(r in (l.get("granted") or []) for l in excerpt[:-1])
        detail = "/after-grant" if was_granted else "/while-waiting"
    return "%s@%s%s" % (inv, ev, detail)


def judge(ctx, tracefile, label, max_rounds=12):
    """Run the observation oracle; peel off violating executions to find every distinct violation."""
    lines = common.read_ndjson(tracefile)
    total = len(lines)
    rounds = 0
    cur = tracefile
    while rounds < max_rounds:
        rounds += 1
        res = ctx.tlc("LockObs", obs_cfg(cur), "obs-%s-%d" % (label, rounds), workers=1, timeout=900)
        if res["status"] == "ok":
            break
        if res["status"] != "invariant":
            raise Infra("LockObs ended with %s on %s" % (res["status"], label))
        cur_lines = common.read_ndjson(cur)
        l = res["last_l"]
        execs = split_executions(cur_lines)
        hit = [(s, e) for (s, e) in execs if s < l <= s + len(e)]
        if not hit:
            raise Infra("cannot locate violating execution (l=%d)" % l)
        s, e = hit[0]
        excerpt = e[: l - s]
        sig = signature(res["invariant"], excerpt)
        what = "%s fails on the real DefaultLocker after %s(%s): tables rl=%s wl=%s queue=%s, holders=%s" % (
            res["invariant"], excerpt[-1].get("ev"), excerpt[-1].get("r"), excerpt[-1].get("rl"),
            excerpt[-1].get("wl"), excerpt[-1].get("queue"), excerpt[-1].get("holders", "(from events)"))
        ctx.violation(sig, what, {"kind": "lock-trace", "source": label, "trace": excerpt})
        rest = [x for (s2, e2) in execs if s2 != s for x in e2]
        cur = ctx.path("peeled-%s-%d.ndjson" % (label, rounds))
        with open(cur, "w") as f:
            for x in rest:
                f.write(json.dumps(x) + "\n")
        if not rest:
            break
    return total


def run(ctx):
    thorough = ctx.tier == "thorough"
    d = design()["CancelDesign"]
    # 1. the design as coded satisfies C15 on the bounded model (safety + liveness)
    reqs = ["r1", "r2", "r3"]
    accts = ["a", "b"]
    res = ctx.tlc("Lock", strict_cfg(reqs, accts, "release", 2 if thorough else 1, True), "strict",
                  timeout=1800, coverage=thorough, pure=not thorough)
    model_ok = res["status"] == "ok"
    ctx.coverage["states"] = res.get("distinct", 0)
    ctx.coverage["transitions"] = res.get("generated", 0)
    if not model_ok:
        raise Infra("Lock.tla (repaired design) violates %s - specification error" % res.get("invariant"))
    if thorough:
        zero = [l for l in res["output"].splitlines() if l.rstrip().endswith(": 0") and "line" in l]
        ctx.coverage["uncovered_spec_lines"] = len(zero)
        res4 = ctx.tlc("Lock", strict_cfg(["r1", "r2", "r3", "r4"], accts, "release", 1, False), "strict4", timeout=3000, pure=True)
        if res4["status"] != "ok":
            raise Infra("Lock.tla 4 requests: %s" % res4["status"])
        ctx.coverage["states"] += res4.get("distinct", 0)
        ctx.coverage["transitions"] += res4.get("generated", 0)
    # 2. vacuity guard: the design that leaks a grant on cancellation must be caught by the same invariants
    neg = ctx.tlc("Lock", strict_cfg(reqs, accts, "leak", 1, False), "neg-leak", timeout=900, pure=True)
    if neg["status"] != "invariant" or neg.get("invariant") != "NoLeak":
        raise Infra("negative config (CancelDesign=leak) was not rejected: %s" % neg["status"])
    ctx.coverage["negative_configs_rejected"] = 1
    # 3. behaviours
    outdir = ctx.mkdir("behaviours")
    n = 3000 if thorough else 600
    for dsg in sorted({d, "release", "leak"}):
        sub = ctx.mkdir("behaviours", dsg)
        g = ctx.tlc("LockGen", gen_cfg(sub, dsg, 14), "gen-" + dsg, workers=1, simulate="num=%d" % n, depth=24, timeout=900)
        if g["status"] != "ok":
            raise Infra("generation failed: %s" % g["status"])
        for f in os.listdir(sub):
            shutil.move(os.path.join(sub, f), os.path.join(outdir, "b-%s-%s" % (dsg, f[1:])))
    nb = len([f for f in os.listdir(outdir) if f.endswith(".ndjson")])
    if nb < n:
        raise Infra("only %d behaviours generated" % nb)
    # 4. replay on the real locker + free-running executions
    binp = ctx.build("lockconf")
    resdir = ctx.mkdir("res")
    ctx.run([binp, "-in", outdir, "-out", resdir, "-repeat", "64" if thorough else "16",
             "-free", "400" if thorough else "60", "-seed", str(ctx.seed)], timeout=1800)
    stats = json.load(open(os.path.join(resdir, "stats.json")))
    if stats["runs"] < nb or stats["coincidence_runs"] < 20 or stats["coincidence_took_grant"] == 0 or stats["coincidence_took_cancel"] == 0:
        raise Infra("replay floor not met: %s" % {k: v for k, v in stats.items() if k != "samples"})
    for a in ("Request/acquired", "Request/enqueued", "Release", "Observe", "CancelSeen", "Cancel"):
        if stats["actions"].get(a, 0) == 0:
            raise Infra("action %s never exercised on the implementation" % a)
    # 5. verdict on the observed values, then conformance
    n1 = judge(ctx, os.path.join(resdir, "replay.ndjson"), "replay")
    n2 = judge(ctx, os.path.join(resdir, "free.ndjson"), "free")
    drift = 0
    for label in ("replay", "free"):
        c = ctx.tlc("LockTrace", trace_cfg(os.path.join(resdir, label + ".ndjson"), d), "conf-" + label, workers=1, timeout=900)
        if c["status"] != "ok":
            drift += 1
            ctx.notes.append("SPEC-DRIFT: %s traces leave Lock.tla (CancelDesign=%s) at line %s (%s %s)" % (
                label, d, c.get("last_l"), c["status"], c.get("invariant", "")))
    ctx.coverage.update({
        "traces_validated_against_impl": stats["runs"] + stats["free_runs"],
        "trace_events": n1 + n2,
        "behaviours_replayed": stats["behaviours"], "replay_runs": stats["runs"],
        "coincidence_runs": stats["coincidence_runs"],
        "coincidence_took_grant": stats["coincidence_took_grant"],
        "coincidence_took_cancel": stats["coincidence_took_cancel"],
        "free_runs": stats["free_runs"], "free_hung": stats.get("free_hung", 0),
        "actions_on_impl": stats["actions"], "spec_drift": drift,
        "evaluations": stats["runs"] + stats["free_runs"],
        "distinct_nontrivial": stats["distinct_behaviours"],
        "rule": "behaviours = TLC -simulate of LockGen.tla (3 requests, arbitrary read/write subsets of 2 accounts with at least one conflicting pair, <=2 cancellations); distinct = distinct behaviour files; each replayed on a real DefaultLocker (x16/x64 when it contains a cancellation, Go picks the select branch)",
        "samples": stats["samples"][:2],
        "exhaustive": False,
    })
    ctx.assumptions += [
        "holders are judged from Lock() results: a call that returned an error holds nothing",
        "liveness is model-checked on Lock.tla; on the code it is checked as quiescent progress and no-hang of free-running executions",
    ]


def replay(ctx, path):
    art = json.load(open(path))
    trace = art["replay"]["trace"]
    f = ctx.path("replay.ndjson")
    with open(f, "w") as fh:
        for l in trace:
            fh.write(json.dumps(l) + "\n")
    # re-execute the same steps on the current tree
    bdir = ctx.mkdir("b")
    with open(os.path.join(bdir, "b0.ndjson"), "w") as fh:
        fh.write(json.dumps({"acc": trace[0]["acc"]}) + "\n")
        for l in trace[1:]:
            if l["ev"] in ("Request", "Release", "Observe", "Cancel", "CancelSeen"):
                fh.write(json.dumps({"a": l["ev"], "r": l["r"]}) + "\n")
    binp = ctx.build("lockconf")
    resdir = ctx.mkdir("res")
    ctx.run([binp, "-in", bdir, "-out", resdir, "-repeat", "64", "-free", "0"], timeout=300)
    judge(ctx, os.path.join(resdir, "replay.ndjson"), "replay")
    ctx.coverage.update({"states": 1, "transitions": 1, "traces_validated_against_impl": 64, "samples": [trace[:3]]})
