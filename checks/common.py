"""Shared machinery of the /verif checks: scratch space, TLC runs, harness
builds, evidence files, VIOLATION / KNOWN-FINDING reporting.

Exit codes of every check: 0 = property held on everything explored,
1 = violation shown on values produced by the real code (VIOLATION line),
2 = infrastructure failure (build, TLC crash/time-out, vacuity guard, ...)."""
import hashlib, json, os, re, shutil, subprocess, sys, tempfile, time

VERIF = os.path.dirname(os.path.dirname(os.path.abspath(__file__)))
REPO = os.environ.get("VERIF_REPO", "/repo")
SPEC = os.path.join(VERIF, "spec")
HARNESS = os.path.join(VERIF, "harness")
EVIDENCE = os.path.join(VERIF, "evidence")
FINDINGS = os.path.join(VERIF, "findings")
NCPU = os.cpu_count() or 4

GOENV = dict(os.environ, GOFLAGS="-mod=mod", GOPROXY="off", GOSUMDB="off", GOTOOLCHAIN="local")


class Infra(Exception):
    pass


class Ctx:
    """One run of one check."""

    def __init__(self, prop, tier, seed, level):
        self.prop, self.tier, self.seed, self.level = prop, tier, seed, level
        self.t0 = time.time()
        self.scratch = tempfile.mkdtemp(prefix="verif-%s-" % prop, dir=os.environ.get("VERIF_TMP"))
        self.coverage = {}
        self.assumptions = []
        self.violations = []   # (signature, what, replay_obj)
        self.notes = []
        self.tlc_runs = []
        import threading
        self._lock = threading.Lock()

    # ---------------------------------------------------------------- files
    def path(self, *p):
        d = os.path.join(self.scratch, *p)
        return d

    def mkdir(self, *p):
        d = self.path(*p)
        os.makedirs(d, exist_ok=True)
        return d

    def cleanup(self):
        if os.environ.get("VERIF_KEEP"):
            print("scratch kept:", self.scratch)
            return
        shutil.rmtree(self.scratch, ignore_errors=True)

    # ---------------------------------------------------------------- go
    def build(self, cmd):
        """Build harness/cmd/<cmd> against /repo's working tree with the hooks on."""
        sync_gosum()
        out = self.path("bin-" + cmd)
        p = subprocess.run(["go", "build", "-tags", "verif", "-o", out, "./cmd/" + cmd],
                           cwd=HARNESS, env=GOENV, stdout=subprocess.PIPE, stderr=subprocess.STDOUT, text=True)
        if p.returncode != 0:
            raise Infra("go build %s failed:\n%s" % (cmd, p.stdout[-4000:]))
        return out

    def run(self, argv, timeout=600, cwd=None, env=None, ok=(0,)):
        t = time.time()
        try:
            p = subprocess.run(argv, cwd=cwd or self.scratch, env=env or GOENV, stdout=subprocess.PIPE,
                               stderr=subprocess.PIPE, text=True, timeout=timeout, errors="replace")
        except subprocess.TimeoutExpired:
            raise Infra("time-out after %ss: %s" % (timeout, " ".join(argv[:4])))
        if os.environ.get("VERIF_TIMING"):
            sys.stderr.write("TIMING run %s %.1fs\n" % (os.path.basename(argv[0]) + " " + " ".join(a for a in argv[1:] if not a.startswith("/"))[:60], time.time() - t))
        if p.returncode not in ok:
            e = Infra("command failed (%d): %s\n%s\n%s" % (p.returncode, " ".join(argv[:6]), p.stdout[-2000:], p.stderr[-4000:]))
            e.stderr = p.stderr
            e.returncode = p.returncode
            raise e
        return p


    # ---------------------------------------------------------------- tlc
    def spec_hash(self, module):
        """hash of the module and of every module of spec/ it extends or instantiates, transitively"""
        if not hasattr(self, "_spec_hashes"):
            self._spec_hashes = {}
        if module in self._spec_hashes:
            return self._spec_hashes[module]
        seen, todo = [], [module]
        while todo:
            m = todo.pop()
            f = os.path.join(SPEC, m + ".tla")
            if m in seen or not os.path.exists(f):
                continue
            seen.append(m)
            text = open(f).read()
            for line in re.findall(r"^\s*(?:EXTENDS|INSTANCE)\s+([^\n]+)", text, re.M):
                for dep in re.split(r"[,\s]+", line.split("WITH")[0]):
                    if dep:
                        todo.append(dep)
        h = hashlib.sha256()
        for m in sorted(seen):
            h.update(m.encode())
            h.update(open(os.path.join(SPEC, m + ".tla"), "rb").read())
        self._spec_hashes[module] = h.hexdigest()
        return self._spec_hashes[module]

    def tlc(self, module, cfg_text, name, workers=None, simulate=None, depth=None, timeout=900,
            extra=(), deque=False, coverage=False, pure=False):
        """Run TLC on spec/<module>.tla with the given cfg text inside the scratch copy of spec/.
        Returns a dict: status in {ok, invariant, deadlock, property, assumption, error}, counts, output.
        pure=True marks a run whose result depends on the specification alone (exhaustive model checking of a
        configuration that reads and writes no file): in the quick tier its result is reused from /verif/cache/tlc
        when the hash of the module (with everything it extends) and the configuration are the same (the thorough tier always
        recomputes and refreshes the entry)."""
        cache_file = None
        if pure and not simulate and not extra:
            key = hashlib.sha256((self.spec_hash(module) + "\0" + module + "\0" + cfg_text).encode()).hexdigest()[:32]
            cache_file = os.path.join(VERIF, "cache", "tlc", key + ".json")
            if self.tier == "quick" and not os.environ.get("VERIF_NOCACHE") and os.path.exists(cache_file):
                res = json.load(open(cache_file))
                res["cached"] = True
                res["cfg"] = name
                self.coverage["spec_results_reused"] = self.coverage.get("spec_results_reused", 0) + 1
                if os.environ.get("VERIF_TIMING"):
                    sys.stderr.write("TIMING tlc %s/%s cached\n" % (module, name))
                return res
        res = self._tlc(module, cfg_text, name, workers, simulate, depth, timeout, extra, deque, coverage)
        if cache_file and res.get("status") in ("ok", "invariant", "property", "deadlock"):
            os.makedirs(os.path.dirname(cache_file), exist_ok=True)
            keep = dict(res)
            keep["output"] = res["output"][-3000:]
            with open(cache_file, "w") as f:
                json.dump(keep, f)
        return res

    def _tlc(self, module, cfg_text, name, workers=None, simulate=None, depth=None, timeout=900,
             extra=(), deque=False, coverage=False):
        d = self.path("spec")
        with self._lock:
            if not os.path.isdir(d):
                shutil.copytree(SPEC, d)
        cfg = os.path.join(d, name + ".cfg")
        with open(cfg, "w") as f:
            f.write(cfg_text)
        md = self.mkdir("md-" + name)
        argv = ["java", "-XX:+UseParallelGC", "-Xss64m"]
        if deque:
            argv.append("-Dtlc2.tool.queue.IStateQueue=StateDeque")
        argv += ["-cp", "/opt/veriftools/tla/tla2tools.jar:/opt/veriftools/tla/CommunityModules-deps.jar", "tlc2.TLC",
                 "-metadir", md, "-config", cfg, "-workers", str(workers or NCPU), "-nowarning"]
        if simulate:
            argv += ["-simulate", simulate]
        if depth:
            argv += ["-depth", str(depth)]
        if simulate:
            argv += ["-seed", str(self.seed)]
        if coverage:
            argv += ["-coverage", "1"]
        argv += list(extra) + [module + ".tla"]
        t = time.time()
        try:
            p = subprocess.run(argv, cwd=d, stdout=subprocess.PIPE, stderr=subprocess.STDOUT, text=True,
                               timeout=timeout, errors="replace")
        except subprocess.TimeoutExpired:
            raise Infra("TLC time-out (%ss) on %s/%s" % (timeout, module, name))
        out = p.stdout
        res = {"module": module, "cfg": name, "wall_s": round(time.time() - t, 2), "output": out, "rc": p.returncode}
        if os.environ.get("VERIF_TIMING"):
            sys.stderr.write("TIMING tlc %s/%s %.1fs\n" % (module, name, time.time() - t))
        m = re.search(r"(\d+) states generated, (\d+) distinct states found", out)
        if m:
            res["generated"], res["distinct"] = int(m.group(1)), int(m.group(2))
        m = re.search(r"The number of states generated: (\d+)", out)
        if m:
            res["generated"] = int(m.group(1))
        m = re.search(r"depth of the complete state graph search is (\d+)", out)
        if m:
            res["depth"] = int(m.group(1))
        if "Model checking completed. No error has been found" in out or (simulate and "Finished in" in out and "Error:" not in out):
            res["status"] = "ok"
        elif re.search(r"Error: Invariant (\w+) is violated", out):
            res["status"] = "invariant"
            res["invariant"] = re.search(r"Error: Invariant (\w+) is violated", out).group(1)
        elif re.search(r"The invariant of (\w+) is equal to FALSE", out):
            res["status"] = "invariant"
            res["invariant"] = re.search(r"The invariant of (\w+) is equal to FALSE", out).group(1)
        elif "Error: Deadlock reached" in out:
            res["status"] = "deadlock"
        elif "Temporal properties were violated" in out or "Error: Action property" in out:
            res["status"] = "property"
            m = re.search(r"Error: Action property (\w+)", out)
            if m:
                res["invariant"] = m.group(1)
        elif "Assumption" in out and "is false" in out:
            res["status"] = "assumption"
        else:
            res["status"] = "error"
        # last value of the trace position variable, when the module has one
        ls = re.findall(r"^/\\ l = (\d+)", out, flags=re.M)
        if ls:
            res["last_l"] = int(ls[-1])
        self.tlc_runs.append({k: v for k, v in res.items() if k != "output"})
        if res["status"] == "error":
            raise Infra("TLC failed on %s/%s:\n%s" % (module, name, out[-3000:]))
        return res

    # ---------------------------------------------------------------- verdicts
    def violation(self, signature, what, replay):
        self.violations.append((signature, what, replay))

    def finish(self, extra_ok=True):
        """Apply the known-findings filter, print VIOLATION / KNOWN-FINDING lines, write evidence, exit."""
        known = load_known()
        unknown = []
        seen_known = set()
        for sig, what, replay in self.violations:
            k = match_known(known, self.prop, sig)
            if k is not None:
                if k["signature"] not in seen_known:
                    print("KNOWN-FINDING: property=%s %s" % (self.prop, k["what"]))
                    seen_known.add(k["signature"])
                continue
            unknown.append((sig, what, replay))
        rc = 0
        reported = set()
        for sig, what, replay in unknown:
            if sig in reported:
                continue
            reported.add(sig)
            os.makedirs(os.path.join(FINDINGS, self.prop), exist_ok=True)
            name = hashlib.sha1(json.dumps([sig, replay], sort_keys=True, default=str).encode()).hexdigest()[:12]
            path = os.path.join(FINDINGS, self.prop, name + ".json")
            with open(path, "w") as f:
                json.dump({"property": self.prop, "signature": sig, "what": what, "replay": replay}, f, indent=1, default=str)
            print("VIOLATION property=%s replay=%s" % (self.prop, path))
            print("  what: %s" % what)
            rc = 1
        if self.coverage.get("spec_results_reused"):
            self.assumptions.append("%d exhaustive model-checking results depending on the specification alone were reused from /verif/cache/tlc (keyed by the hash of the module with everything it extends, and of the configuration); the thorough tier recomputes them" % self.coverage["spec_results_reused"])
        self.write_evidence(len(reported))
        for n in self.notes:
            print(n)
        print("%s %s tier=%s seed=%d wall=%.1fs %s" % (
            "FAIL" if rc else "OK", self.prop, self.tier, self.seed, time.time() - self.t0,
            json.dumps({k: v for k, v in self.coverage.items() if isinstance(v, (int, float, bool))})))
        self.cleanup()
        sys.exit(rc)

    def write_evidence(self, nviol):
        os.makedirs(EVIDENCE, exist_ok=True)
        cov = dict(self.coverage)
        cov["tlc_runs"] = self.tlc_runs
        ev = {"property_id": self.prop, "tier": self.tier, "seed": self.seed, "level": self.level,
              "coverage": cov, "assumptions": self.assumptions, "wall_s": round(time.time() - self.t0, 2),
              "violations": nviol}
        with open(os.path.join(EVIDENCE, self.prop + ".json"), "w") as f:
            json.dump(ev, f, indent=1, default=str)
            f.write("\n")


def sync_gosum():
    """The harness module compiles /repo's working tree; its go.sum is /repo's (plus libs')."""
    dst = os.path.join(HARNESS, "go.sum")
    lines = set()
    for src in (os.path.join(REPO, "go.sum"), os.path.join(REPO, "libs", "go.sum")):
        if os.path.exists(src):
            lines.update(open(src).read().splitlines())
    text = "\n".join(sorted(l for l in lines if l.strip())) + "\n"
    if not os.path.exists(dst) or open(dst).read() != text:
        with open(dst, "w") as f:
            f.write(text)


def load_known():
    p = os.path.join(VERIF, "known_findings.json")
    if not os.path.exists(p):
        return []
    return json.load(open(p)).get("findings", [])


def match_known(known, prop, sig):
    for k in known:
        if k.get("property") == prop and (k["signature"] == sig or (k.get("prefix") and sig.startswith(k["signature"])) or (k.get("suffix") and sig.endswith(k["signature"]))):
            return k
    return None


def infra_exit(ctx, e):
    print("INFRA-FAILURE property=%s: %s" % (ctx.prop if ctx else "?", e))
    if ctx:
        ctx.cleanup()
    sys.exit(2)


def read_ndjson(path):
    out = []
    with open(path) as f:
        for line in f:
            line = line.strip()
            if line:
                out.append(json.loads(line))
    return out


def go_crash_site(stderr):
    """For the stderr of a Go process killed by the runtime (fatal error / unrecovered panic / SIGSEGV): the
    function and file:line of the first frame of the crashing goroutine that is neither the runtime nor the
    standard library. Returns (what, function, location) or None."""
    m = re.search(r"^(fatal error: .*|panic: .*|unexpected fault address .*)$", stderr, re.M)
    if not m:
        return None
    rest = stderr[m.start():]
    g = re.search(r"^goroutine \d+ .*\[running\]:\n", rest, re.M)
    if not g:
        return None
    frames = re.findall(r"^([\w./*()\[\]…-]+)\(.*\)\n\t(/[^\s:]+:\d+)", rest[g.end():].split("\n\ngoroutine ")[0], re.M)
    for fn, loc in frames:
        if loc.startswith("/usr/lib/go") or "/src/runtime/" in loc:
            continue
        return (m.group(1).strip(), fn, loc)
    return None
