"""C05 - decided with Engine.tla (see engine.py) and, for the batch hand-off to the store, Batcher.tla (batcher.py)."""
import json
import engine, batcher
LEVEL = engine.LEVEL
def run(ctx):
    engine.run_prop(ctx, "C05")
    batcher.part(ctx, "C05")
def replay(ctx, path):
    art = json.load(open(path))
    if art["replay"].get("kind") == "batcher-word":
        return batcher.replay(ctx, "C05", art)
    engine.replay_prop(ctx, "C05", path)
