"""C11 - decided with Engine.tla (see engine.py)."""
import engine
LEVEL = engine.LEVEL
def run(ctx): engine.run_prop(ctx, "C11")
def replay(ctx, path): engine.replay_prop(ctx, "C11", path)
