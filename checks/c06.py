"""C06 - decided with Engine.tla (see engine.py) and, for acknowledgement after the store returned, Batcher.tla (batcher.py)."""
import json
import engine, batcher
LEVEL = engine.LEVEL
def run(ctx):
    engine.run_prop(ctx, "C06")
    batcher.part(ctx, "C06")
def replay(ctx, path):
    art = json.load(open(path))
    if art["replay"].get("kind") == "batcher-word":
        return batcher.replay(ctx, "C06", art)
    engine.replay_prop(ctx, "C06", path)
