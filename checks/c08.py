"""C08 - decided with Numscript.tla (see numscript.py)."""
import numscript
LEVEL = numscript.LEVEL
def run(ctx): numscript.run_prop(ctx, "C08")
def replay(ctx, path): numscript.replay_prop(ctx, "C08", path)
