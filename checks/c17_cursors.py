"""C17, cursor part: every cursor the real Store hands out for a filtered list is accepted back and stands for the same query."""
import json, os, re
import common
from common import Infra


def verdict_of(o):
    v = o["output"].split("OBS-VERDICT", 1)[1].split("OBS-COUNTS")[0]
    found = [(m.group(1), int(m.group(2))) for m in re.finditer(r'<<"(\w+)", (\d+)>>', v)]
    counts = dict((m.group(1), int(m.group(2))) for m in re.finditer(r'(\w+) \|-> (\d+)', o["output"].split("OBS-COUNTS", 1)[1]))
    return found, counts


def judge(ctx, cases, label):
    binp = ctx.build("storeconf")
    res = ctx.path("cursor-results-%s.ndjson" % label)
    ctx.run([binp, "-mode", "cursors", "-in", cases, "-out", res, "-stats", ctx.path("cursor-stats.json")], timeout=1800)
    st = json.load(open(ctx.path("cursor-stats.json")))
    o = ctx.tlc("CursorObs", "SPECIFICATION OSpec\nCONSTANTS\n  ResultFile = \"%s\"\n  MaxReport = 4\nPOSTCONDITION Post\nCHECK_DEADLOCK FALSE\n" % res,
                "cursor-obs-" + label, workers=1, timeout=1800)
    if o["status"] != "ok" or "OBS-VERDICT" not in o["output"]:
        raise Infra("CursorObs did not deliver a verdict (%s)" % o["status"])
    found, counts = verdict_of(o)
    lines = common.read_ndjson(res)
    drift = 0
    for inv, l in found:
        r = lines[l - 1]
        if inv.startswith("Conf_"):
            drift += 1
            continue
        has_filter = bool(r["expr"])
        flags = "+".join(k for k in ("pit", "volumes", "effective") if r["opt"].get(k)) or "no-options"
        sig = "%s@%s/%s/%s" % (inv, r["ep"], "filtered" if has_filter else "unfiltered", flags)
        ctx.violation(sig, "%s fails: %s list with filter %s options %s: %s %s" % (
            inv, r["ep"], json.dumps(r["expr"]), json.dumps(r["opt"]), r["obs"]["err"], (r["obs"]["sql2"] or "")[:300]),
            {"kind": "c17-cursor", "case": r})
    if drift:
        ctx.notes.append("SPEC-DRIFT: %d filter cases were not accepted / produced no next cursor (Filter.tla vs the store)" % drift)
    return st, counts


def run(ctx):
    thorough = ctx.tier == "thorough"
    cases = ctx.path("filter-cases.ndjson")
    g = ctx.tlc("Filter", "SPECIFICATION Spec\nCONSTANTS\n  OutFile = \"%s\"\n  Depth = %d\nPOSTCONDITION Emit\nCHECK_DEADLOCK FALSE\n" % (cases, 2 if thorough else 1),
                "filter", workers=4, timeout=3000)
    if g["status"] != "ok":
        raise Infra("Filter.tla failed (%s)" % g["status"])
    st, counts = judge(ctx, cases, "all")
    if st["with_next_cursor"] < 1000:
        raise Infra("vacuity guard: only %d cursors handed out" % st["with_next_cursor"])
    ctx.coverage["cursor_part"] = {"filter_cases": st["cases"], "cursors_decoded_and_rerun": st["with_next_cursor"], "predicate_failures": counts,
                                   "rule": "cases = (endpoint in transactions/accounts/logs) x (every filter expression of Filter.tla: all operator/key/value-kind leaves the endpoint accepts, $not, $and/$or pairs) x (pit, expand flags, page size)",
                                   "samples": st["samples"][:1]}
    ctx.coverage["traces_validated_against_impl"] += st["with_next_cursor"]
    ctx.coverage["evaluations"] += st["cases"]
    ctx.coverage["distinct_nontrivial"] += st["cases"]
    ctx.coverage["states"] += g.get("distinct", 0)


def replay(ctx, art):
    cases = ctx.path("one.ndjson")
    # the stored case is a result line; rebuild the input case is not possible from the rendered JSON: rerun the family
    run(ctx)
