"""C04 - what the read API reports is the replay of the log.
Projection.tla holds two descriptions of a bucket shared by two ledgers: Replay (a fold of one ledger's log) and the
projection as implemented (the tables of 0-init-schema.sql maintained by a transcription of handle_log / insert_move / ...
and read by transcriptions of the read functions). TLC checks that they agree for every log sequence within the bounds,
that inputs equal outputs, and that each negative design is rejected.
Binding to the code: TLC generates histories (ProjectionGen.tla) with the projected tables and Replay's expectation for every
ledger and point in time; the tables are served to the real ledgerstore.Store by pgmini (a small evaluator of the SQL the
Store actually sends, under PostgreSQL's rules); every read method is called for each ledger and instant, once against the
whole bucket and once against the ledger's rows alone; TLC (ProjectionObs.tla) compares each answer with Replay.
The plpgsql side itself cannot be executed here (no PostgreSQL): it is bound by transcription only - see DESIGN.md."""
import json, os, re, glob, shutil
import common
from common import Infra

LEVEL = "model_checking"

GOOD = dict(PatchLater="TRUE", ScopedReads="TRUE", ExistsFresh="TRUE", EmptyIsZero="TRUE", FirstPick='"last"', AcctPitStrict="FALSE")
# negative designs: (name, switch, value, palette, invariant expected to fail, what it is)
NEG = [
    ("no-patch", "PatchLater", "FALSE", "PalBack", "vacuity", "insert_move without the update of later-dated rows"),
    ("unscoped", "ScopedReads", "FALSE", "PalSmall", "vacuity", "read functions without the ledger predicate"),
    ("exists-once", "ExistsFresh", "FALSE", "PalOdd", "as-coded", "insert_posting evaluates 'account exists' once, before both upserts (a posting from a new account to itself)"),
    ("null-on-empty", "EmptyIsZero", "FALSE", "PalBack", "as-coded", "plpgsql SELECT INTO assigns NULL when no move is dated before the new one (a back-dated first move)"),
    ("first-is-first", "FirstPick", '"first"', "PalOdd", "as-coded", "first() taken as the first move of the group (two postings on one account in one transaction)"),
    ("acct-pit-strict", "AcctPitStrict", "TRUE", "PalSmall", "as-coded", "account metadata history compared with < at the instant of a revision"),
]


def cfg(spec, design, pal, maxlogs, maxdate, invs, outdir=None):
    c = "SPECIFICATION %s\nCONSTANTS\n  Ledgers = {\"l1\", \"l2\"}\n  Accts = {\"world\", \"a\", \"b\"}\n  Assets = {\"USD\"}\n" % spec
    c += "  MaxDate = %d\n  MaxLogs = %d\n  PostingPalette <- %s\n" % (maxdate, maxlogs, pal)
    for k, v in design.items():
        c += "  %s = %s\n" % (k, v)
    c += "  OutDir = \"%s\"\n" % (outdir or "unused")
    if invs:
        c += "INVARIANTS " + " ".join(invs) + "\n"
    c += "CHECK_DEADLOCK FALSE\n"
    return c


def verdict_of(o):
    if o["status"] != "ok" or "OBS-VERDICT" not in o["output"]:
        raise Infra("ProjectionObs did not deliver a verdict (%s)" % o["status"])
    body = o["output"].split("OBS-VERDICT", 1)[1].split("OBS-COUNTS", 1)
    found = [(m.group(1), int(m.group(2))) for m in re.finditer(r'<<"(\w+)", (\d+)>>', body[0])]
    counts = dict((m.group(1), int(m.group(2))) for m in re.finditer(r'(\w+) \|-> (\d+)', body[1]))
    return found, counts


def judge(ctx, histdir, name):
    binp = ctx.build("storeconf")
    res = ctx.path("results-%s.ndjson" % name)
    stats = ctx.path("stats-%s.json" % name)
    ctx.run([binp, "-mode", "project", "-in", histdir, "-out", res, "-stats", stats], timeout=3000)
    st = json.load(open(stats))
    o = ctx.tlc("ProjectionObs", "SPECIFICATION OSpec\nCONSTANTS\n  ResultFile = \"%s\"\n  MaxReport = 4\nPOSTCONDITION Post\nCHECK_DEADLOCK FALSE\n" % res,
                "obs-" + name, workers=1, timeout=3000)
    found, counts = verdict_of(o)
    return res, st, found, counts


def explain(name, r):
    e, g = r["expect"], r["got"]
    bits = []
    if name == "C04_Isolation":
        if not r["isolated"]:
            diff = [k for k in g if g[k] != r["alone"].get(k)]
            bits.append("answers differ when the other ledger's rows are removed: %s" % ", ".join("%s=%s (alone: %s)" % (k, json.dumps(g[k])[:120], json.dumps(r["alone"].get(k))[:120]) for k in diff))
        if r["kind"] == "now" and g.get("foreign") != [-1]:
            bits.append("ids/references the ledger does not hold were found: %s" % g.get("foreign"))
    elif name == "C04_Logs":
        bits.append("logs=%s lastlog=%s ik=%s payloads_match=%s (the ledger holds %d entries)" % (g.get("logs"), g.get("lastlog"), g.get("ik"), g.get("logdata"), e["nlogs"]))
    elif name.startswith("C04_Account"):
        for a, ea in e["accts"].items():
            ga = g["accts"][a]
            bits.append("%s: expect %s got %s" % (a, json.dumps({k: ea[k] for k in ("exists", "md", "vol", "evol") if k in ea}), json.dumps(ga)))
        bits.append("nacct=%s" % g.get("nacct"))
    elif name.startswith("C04_Tx"):
        bits.append("listed=%s ntx=%s last=%s" % (g.get("listed"), g.get("ntx"), g.get("last")))
        for et, gt in zip(e["txs"], g["txs"]):
            bits.append("tx %s: expect %s got %s" % (et["id"], json.dumps({k: et[k] for k in et if k != "postings"}), json.dumps({k: gt[k] for k in gt if k != "postings"})))
    else:
        bits.append("expect agg=%s bal=%s got %s" % (e.get("agg"), {a: e["accts"][a]["bal"] for a in e["accts"]}, json.dumps({k: g[k] for k in g if k in ("aggbal", "accts")})[:600]))
    return "; ".join(bits)[:1800]


def report(ctx, res, found, histdir):
    lines = None
    seen = set()
    for name, l in found:
        if lines is None:
            lines = common.read_ndjson(res)
        r = lines[l - 1]
        sig = "%s@%s" % (name, r["kind"])
        if sig in seen:
            continue
        seen.add(sig)
        hist = open(os.path.join(histdir, r["h"])).read()
        what = "%s: ledger %s, %s, history %s: %s" % (
            name, r["ledger"], ("point in time day %d%s" % (r["pit"], "" if r["exact"] else " +12h")) if r["kind"] == "pit" and r["pit"] else "no point in time",
            r["h"], explain(name, r))
        ctx.violation(sig, what, {"kind": "c04-history", "history": json.loads(hist), "line": {k: r[k] for k in ("kind", "ledger", "pit", "exact")}, "name": name})


def run(ctx):
    thorough = ctx.tier == "thorough"
    # 1. the specification: exhaustive within bounds; negative designs rejected
    invs = ["ReadsAreReplay", "InputsEqualOutputs"]
    mc = []
    mc.append(("good-2", ctx.tlc("ProjectionGen", cfg("MCSpec", GOOD, "PalGen", 2, 3, invs), "good-2", workers=8, timeout=1800, pure=True)))
    if thorough:
        mc.append(("good-3", ctx.tlc("ProjectionGen", cfg("MCSpec", GOOD, "PalSmall", 3, 3, invs), "good-3", workers=common.NCPU, timeout=3000, pure=True)))
        mc.append(("good-odd", ctx.tlc("ProjectionGen", cfg("MCSpec", GOOD, "PalOdd", 2, 3, invs), "good-odd", workers=8, timeout=1800, pure=True)))
    for n, r in mc:
        if r["status"] != "ok":
            raise Infra("Projection.tla (%s) does not satisfy its own invariants under the repaired design: %s %s" % (n, r["status"], r.get("invariant")))
    negs = []
    for name, sw, val, pal, kind, what in NEG:
        d = dict(GOOD)
        d[sw] = val
        r = ctx.tlc("ProjectionGen", cfg("MCSpec", d, pal, 3 if name in ("no-patch", "null-on-empty", "acct-pit-strict") else 2, 3, invs), "neg-" + name, workers=8, timeout=1800, pure=True)
        negs.append({"design": name, "kind": kind, "what": what, "rejected": r["status"] == "invariant", "invariant": r.get("invariant")})
        if r["status"] != "invariant":
            raise Infra("vacuity guard: the design '%s' (%s) was not rejected by TLC (%s)" % (name, what, r["status"]))
    # 2. histories -> the real Store's read path -> TLC verdict
    histdir = ctx.mkdir("hist")
    num = 1500 if thorough else 150
    gens = []
    for k, (pal, maxlogs) in enumerate([("PalGen", 5), ("PalGen", 6)] if thorough else [("PalGen", 5)]):
        sub = ctx.mkdir("hist-%d" % k)
        g = ctx.tlc("ProjectionGen", cfg("GenSpec", GOOD, pal, maxlogs, 4, [], sub), "gen-%d" % k, workers=1, simulate="num=%d" % num, depth=12, timeout=3000)
        if g["status"] != "ok":
            raise Infra("ProjectionGen failed: %s" % g["output"][-600:])
        for f in glob.glob(os.path.join(sub, "*.ndjson")):
            shutil.move(f, os.path.join(histdir, "g%d-%s" % (k, os.path.basename(f))))
        gens.append(g)
    res, st, found, counts = judge(ctx, histdir, "all")
    if st["histories"] < num * 0.6 or st["statement_shapes"] < 15:
        raise Infra("vacuity guard: %d distinct histories, %d statement shapes" % (st["histories"], st["statement_shapes"]))
    report(ctx, res, found, histdir)
    lines = common.read_ndjson(res)
    nrev = sum(1 for r in lines if r["kind"] == "now" and any(t.get("reverted") for t in r["expect"]["txs"]))
    nback = sum(1 for r in lines if r["kind"] == "now" and any(t["ts"] < u["ts"] for i, t in enumerate(r["expect"]["txs"]) for u in r["expect"]["txs"][:i]))
    nmeta = sum(1 for r in lines if r["kind"] == "now" and any(any(v for v in a["md"].values()) for a in r["expect"]["accts"].values()))
    if min(nrev, nback, nmeta) < 5:
        raise Infra("vacuity guard: histories with reverts=%d, back-dated=%d, account metadata=%d" % (nrev, nback, nmeta))
    ctx.coverage.update({
        "states": sum(r.get("distinct", 0) for _, r in mc), "transitions": sum(r.get("generated", 0) for _, r in mc),
        "traces_validated_against_impl": st["histories"], "evaluations": st["lines"], "distinct_nontrivial": st["histories"],
        "rule": "histories = TLC -simulate of ProjectionGen.tla: %s log entries spread over two ledgers of one bucket (transactions with effective dates 1..4 in any order, reverts, metadata set/delete on transactions and accounts, script-written account metadata); distinct = distinct history files; each read for both ledgers at no instant and at 10 instants (each log date and half a day later), against the whole bucket and against the ledger's rows alone" % ("5-6" if thorough else "5"),
        "reads_per_history": "GetBalance, GetAccount, GetAccountWithVolumes, GetAccountsWithVolumes, CountAccounts, GetTransaction, GetTransactionWithVolumes, GetTransactionByReference, GetLastTransaction, GetTransactions, CountTransactions, GetAggregatedBalances, GetLogs, GetLastLog, ReadLogWithIdempotencyKey",
        "statement_shapes": st["statement_shapes"], "read_calls": st["reads"], "observation_failures": counts,
        "histories_with_reverts": nrev, "histories_back_dated": nback, "histories_with_account_metadata": nmeta,
        "spec_runs": [{"cfg": n, "status": r["status"], "distinct": r.get("distinct"), "generated": r.get("generated"), "wall_s": r["wall_s"]} for n, r in mc],
        "negative_designs": negs, "exhaustive": False,
    })
    addrfilter_part(ctx)
    ctx.assumptions += [
        "the database is pgmini: the projected tables come from Projection.tla (repaired design: equal to Replay), the statements are the real Store's, evaluated under PostgreSQL's rules for the constructs they use (join / lateral / distinct on / order / limit / column naming); a construct pgmini does not know makes the run undecided (exit 2)",
        "the plpgsql trigger and read functions of 0-init-schema.sql are not executed (no PostgreSQL): Projection.tla transcribes them and TLC checks the transcription; the designs marked 'as-coded' in negative_designs are corners where the transcription of the SQL as written leaves Replay (unconfirmed observations, DESIGN.md)",
        "account metadata at the exact instant of a revision is not judged (the account query compares with <, every other query with <=; the property does not say which)",
        "first() inside get_aggregated_volumes_for_transaction is taken to return the last move of the group",
        "a NULL balance (account never seen) is read as 0",
    ]


def addrfilter_part(ctx, only=None):
    """Address filters: AddrFilter.tla enumerates every filter over 2 segment values up to 3 (4 in the thorough tier)
    segments with the set of accounts it selects; the real Store lists and counts them (statements evaluated by pgmini);
    AddrFilterObs.tla judges."""
    cases = ctx.path("af-cases.ndjson")
    n = 4 if ctx.tier == "thorough" else 3
    g = ctx.tlc("AddrFilter", "SPECIFICATION Spec\nCONSTANTS\n  Segs = {\"a\", \"b\"}\n  MaxLen = %d\n  OutFile = \"%s\"\nINVARIANT Sane\nPOSTCONDITION Emit\nCHECK_DEADLOCK FALSE\n" % (n, cases),
                "addrfilter", workers=1, timeout=900)
    if g["status"] != "ok" or not os.path.exists(cases):
        raise Infra("AddrFilter.tla did not emit cases (%s %s)" % (g["status"], g.get("invariant")))
    if only is not None:
        keep = [c for c in common.read_ndjson(cases) if c["filter"] == only]
        with open(cases, "w") as f:
            for c in keep:
                f.write(json.dumps(c) + "\n")
    binp = ctx.build("storeconf")
    res = ctx.path("af-results.ndjson")
    ctx.run([binp, "-mode", "addrfilter", "-in", cases, "-out", res, "-stats", ctx.path("af-stats.json")], timeout=900)
    st = json.load(open(ctx.path("af-stats.json")))
    if only is None and (st["cases"] < 39 or st["cases_expecting_accounts"] < 30 or st["multi_segment_filters"] < 30):
        raise Infra("vacuity guard: address filter cases %s" % {k: v for k, v in st.items() if k != "samples"})
    o = ctx.tlc("AddrFilterObs", "SPECIFICATION OSpec\nCONSTANTS\n  ResultFile = \"%s\"\n  MaxReport = 6\nPOSTCONDITION Post\nCHECK_DEADLOCK FALSE\n" % res,
                "af-obs", workers=1, timeout=900)
    if o["status"] != "ok" or "OBS-VERDICT" not in o["output"]:
        raise Infra("AddrFilterObs did not deliver a verdict (%s)" % o["status"])
    verdict = o["output"].split("OBS-VERDICT", 1)[1]
    lines = common.read_ndjson(res)
    ntx = sum(1 for r in lines if r.get("gotSource") and r.get("gotDestination"))
    if only is None and ntx < 30:
        raise Infra("vacuity guard: only %d filters selected transactions by source and by destination" % ntx)
    for m in re.finditer(r'<<"(\w+)", (\d+)>>', verdict):
        r = lines[int(m.group(2)) - 1]
        ctx.violation("%s@filter:%s" % (m.group(1), r["filter"]),
                      ("accounts listed under the address filter '%s': %s (count %s); the accounts it selects: %s" % (r["filter"], r["listed"], r["count"], r["expect"]))
                      if m.group(1) != "C04_AddressFilterOnTransactions" else
                      ("transactions listed under the address filter '%s' by source / destination / account: %s / %s / %s (count %s); due: %s / %s / %s" % (
                          r["filter"], r.get("gotSource"), r.get("gotDestination"), r.get("gotAccount"), r.get("countAccount"), r.get("bySource"), r.get("byDestination"), r.get("byAccount"))),
                      {"kind": "c04-addrfilter", "filter": r["filter"]})
    ctx.coverage["address_filters"] = {"cases": st["cases"], "expecting_accounts": st["cases_expecting_accounts"], "with_open_or_several_segments": st["multi_segment_filters"],
                                       "rule": "every filter of 1..%d segments over {a, b, empty} against a ledger holding every address of 1..%d segments but one, in a bucket whose other ledger holds them all; per address one transaction drawing on it and one crediting it, listed and counted by source, by destination and by account; exhaustive" % (n, n),
                                       "filters_selecting_transactions": ntx,
                                       "samples": (st["samples"] or [])[:1]}


def replay(ctx, path):
    art = json.load(open(path))
    if art["replay"].get("kind") == "c04-addrfilter":
        addrfilter_part(ctx, only=art["replay"]["filter"])
        ctx.coverage.update({"states": 1, "transitions": 1, "traces_validated_against_impl": 1})
        return
    d = ctx.mkdir("hist")
    with open(os.path.join(d, "h.ndjson"), "w") as f:
        f.write(json.dumps(art["replay"]["history"]) + "\n")
    res, st, found, counts = judge(ctx, d, "replay")
    for name, l in found:
        if name == art["replay"]["name"]:
            ctx.violation(art["signature"], name, art["replay"])
            break
    ctx.coverage.update({"states": 1, "transitions": 1, "traces_validated_against_impl": 1, "observation_failures": counts})
