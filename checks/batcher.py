"""The log batcher (Batcher.tla): part of C05 (what reaches the store is the appended sequence, in order, once) and of
C06 (acknowledged only after stored, exactly once). TLC model-checks the loop/worker interleavings incl. liveness, rejects
the aliasing cut, and enumerates append/release schedules; batchconf runs each on the real Batcher with a small batch size
and a store that holds its calls; BatcherObs.tla judges the recorded events."""
import json, re
import common
from common import Infra


def cfg(design, out, maxword, items=6, maxbatch=2, live=True):
    return ("SPECIFICATION FairSpec\nCONSTANTS\n  MaxItems = %d\n  MaxBatch = %d\n  CutDesign = \"%s\"\n  OutFile = \"%s\"\n  MaxWord = %d\n"
            "INVARIANTS Fifo NothingLost BatchBound AckAfterStore AckOnce AcksInOrder\n%sPOSTCONDITION Emit\nCHECK_DEADLOCK FALSE\n") % (
                items, maxbatch, design, out, maxword, "PROPERTIES AllStoredEventually\n" if live else "")


def part(ctx, prop):
    thorough = ctx.tier == "thorough"
    runs = []
    total = {"schedules": 0, "items": 0, "full_batches": 0}
    counts_all = {}
    for maxbatch, maxword in ((2, 10 if thorough else 8), (3, 11 if thorough else 9)) + (((1, 8),) if thorough else ()):
        words = ctx.path("batcher-words-%d.ndjson" % maxbatch)
        g = ctx.tlc("Batcher", cfg("slice", words, maxword, items=7 if thorough else 6, maxbatch=maxbatch), "batcher-%d" % maxbatch, workers=4, timeout=1200)
        if g["status"] != "ok":
            raise Infra("Batcher.tla (the code's cut) fails: %s %s" % (g["status"], g.get("invariant")))
        runs.append(g)
        binp = ctx.build("batchconf")
        res = ctx.path("batcher-obs-%d.ndjson" % maxbatch)
        ctx.run([binp, "-in", words, "-out", res, "-stats", ctx.path("batcher-stats.json")], timeout=2400)
        st = json.load(open(ctx.path("batcher-stats.json")))
        for k in total:
            total[k] += st[k]
        o = ctx.tlc("BatcherObs", "SPECIFICATION OSpec\nCONSTANTS\n  ResultFile = \"%s\"\n  MaxReport = 3\nPOSTCONDITION Post\nCHECK_DEADLOCK FALSE\n" % res,
                    "batcher-obs-%d" % maxbatch, workers=1, timeout=1200)
        if o["status"] != "ok" or "OBS-VERDICT" not in o["output"]:
            raise Infra("BatcherObs did not deliver a verdict (%s)" % o["status"])
        verdict = o["output"].split("OBS-VERDICT", 1)[1].split("OBS-COUNTS")[0]
        counts = dict((m.group(1), int(m.group(2))) for m in re.finditer(r'(\w+) \|-> (\d+)', o["output"].split("OBS-COUNTS", 1)[1]))
        for k, v in counts.items():
            counts_all[k] = counts_all.get(k, 0) + v
        lines = None
        for m in re.finditer(r'<<"(\w+)", (\d+)>>', verdict):
            name = m.group(1)
            if lines is None:
                lines = common.read_ndjson(res)
            r = lines[int(m.group(2)) - 1]
            if name.startswith("Conf_"):
                continue
            if not name.startswith(prop + "_"):
                continue
            backlog = any(len(e["b"]) == r["max"] for e in r["events"] if e["k"] == "run")
            ctx.violation("%s@batcher:%s" % (name, "cut" if backlog else "no-cut"),
                          "%s fails on the real batcher (max batch %d, schedule %s): events %s %s" % (name, r["max"], "".join(r["word"]), json.dumps(r["events"]), r.get("why", "")),
                          {"kind": "batcher-word", "case": {"word": r["word"], "max": r["max"], "batches": r["batches"]}})
    neg = ctx.tlc("Batcher", cfg("compact", ctx.path("batcher-neg.ndjson"), 3, live=False), "batcher-neg", workers=4, timeout=600)
    if neg["status"] != "invariant":
        raise Infra("vacuity guard: the aliasing cut of the backlog was not rejected by Batcher.tla")
    # BatcherN.tla: the runner's nbWorkers parameter. One worker refines Batcher.tla; two workers keep everything but the order.
    def ncfg(workers, invs, props):
        return ("SPECIFICATION FairSpec\nCONSTANTS\n  MaxItems = %d\n  MaxBatch = 2\n  Workers = %d\nINVARIANTS %s\nPROPERTIES %s\nCHECK_DEADLOCK FALSE\n"
                % (7 if thorough else 6, workers, invs, props))
    rest = "NothingLostSet BatchBound ChannelsFit AckAfterStore AckOnce"
    n1 = ctx.tlc("BatcherN", ncfg(1, "Fifo AcksInOrder " + rest, "AllStoredEventually RefinesBatcher"), "batcherN-1", workers=4, timeout=600)
    n2 = ctx.tlc("BatcherN", ncfg(2, rest, "AllStoredEventually"), "batcherN-2", workers=4, timeout=900)
    if n1["status"] != "ok" or n2["status"] != "ok":
        raise Infra("BatcherN.tla fails: one worker %s %s, two workers %s %s" % (n1["status"], n1.get("invariant"), n2["status"], n2.get("invariant")))
    n2neg = ctx.tlc("BatcherN", ncfg(2, "Fifo", "AllStoredEventually"), "batcherN-2-neg", workers=4, timeout=600)
    if n2neg["status"] != "invariant":
        raise Infra("vacuity guard: two batcher workers were not shown to break the store order in BatcherN.tla")
    runs += [n1, n2]
    if total["full_batches"] < 100:
        raise Infra("vacuity guard: only %d full batches were cut on the real batcher" % total["full_batches"])
    if counts_all.get("Conf_BatchesAsPredicted", 0):
        ctx.notes.append("SPEC-DRIFT: %d schedules where the real batcher cut other batches than Batcher.tla predicts" % counts_all["Conf_BatchesAsPredicted"])
    ctx.coverage["batcher_part"] = {
        "states": sum(r.get("distinct", 0) for r in runs), "schedules": total["schedules"], "items": total["items"], "full_batches_cut": total["full_batches"],
        "negative_design_rejected": "compact:%s; two-workers:%s" % (neg.get("invariant"), n2neg.get("invariant")), "predicate_failures": counts_all,
        "workers_generalisation": "BatcherN.tla: Workers=1 refines Batcher.tla (RefinesBatcher) with every invariant and liveness; Workers=2 keeps NothingLostSet/AckAfterStore/AckOnce/ChannelsFit/liveness and loses Fifo (the constant 1 in commander.go is what orders the store calls)",
        "rule": "every word over {append, release} up to the stated length with at least one append, for max batch sizes 2 and 3%s; each run on a fresh real Batcher (one worker, as the Commander builds it) whose store call is held until released; liveness (every item eventually stored and acknowledged) model-checked under weak fairness and observed as 'no stall within 2 s'" % (" and 1" if thorough else ""),
    }


def replay(ctx, prop, art):
    binp = ctx.build("batchconf")
    words = ctx.path("w.ndjson")
    with open(words, "w") as f:
        f.write(json.dumps(art["replay"]["case"]) + "\n")
    res = ctx.path("o.ndjson")
    ctx.run([binp, "-in", words, "-out", res, "-stats", ctx.path("s.json")], timeout=300)
    o = ctx.tlc("BatcherObs", "SPECIFICATION OSpec\nCONSTANTS\n  ResultFile = \"%s\"\n  MaxReport = 3\nPOSTCONDITION Post\nCHECK_DEADLOCK FALSE\n" % res, "obs", workers=1, timeout=600)
    verdict = o["output"].split("OBS-VERDICT", 1)[1].split("OBS-COUNTS")[0]
    for m in re.finditer(r'<<"(\w+)", (\d+)>>', verdict):
        if m.group(1).startswith(prop + "_"):
            ctx.violation(art["signature"], m.group(1), art["replay"])
            break
    ctx.coverage.update({"states": 1, "transitions": 1, "traces_validated_against_impl": 1})
