"""C12 - decided with Numscript.tla (see numscript.py); plus, on the real Commander with the real lock manager, that
a request whose script fails at any stage leaves nothing behind that blocks later requests (engine.py, PalFunds)."""
import json
import numscript, engine
LEVEL = numscript.LEVEL
def run(ctx):
    engine.run_prop(ctx, "C12")
    eng = dict(ctx.coverage)
    numscript.run_prop(ctx, "C12")
    ctx.coverage["engine_part"] = {k: eng[k] for k in eng if k in ("states", "transitions", "behaviours_replayed", "replay_steps", "rule")}
def replay(ctx, path):
    art = json.load(open(path))
    if art["replay"].get("kind") == "engine-trace":
        return engine.replay_prop(ctx, "C12", path)
    numscript.replay_prop(ctx, "C12", path)
