"""C13 - every log entry can be read back and re-verified.
LogChain.tla (chain law, tamper/swap detection; TLC enumerates histories: every kind x target x value class, chains up to
the bound) ; harness/cmd/codecconf instantiates each history with real ledger.Log values from seeded pools, chains them with
Log.ChainLog, stores them in both real stored forms and reads them back ; LogChainObs.tla (TLC) judges."""
import json, os, re
import common
from common import Infra

LEVEL = "exploration"


def run(ctx):
    thorough = ctx.tier == "thorough"
    hist = ctx.path("histories.ndjson")
    g = ctx.tlc("LogChain", "SPECIFICATION Spec\nCONSTANTS\n  MaxLen = %d\n  OutFile = \"%s\"\nINVARIANTS ChainVerifies TamperDetected SwapDetected\nPOSTCONDITION Emit\nCHECK_DEADLOCK FALSE\n" % (4 if thorough else 3, hist),
                "logchain", workers=8, timeout=1800)
    if g["status"] != "ok":
        raise Infra("LogChain.tla failed (%s %s)" % (g["status"], g.get("invariant")))
    binp = ctx.build("codecconf")
    res = ctx.path("results.ndjson")
    ctx.run([binp, "-in", hist, "-out", res, "-stats", ctx.path("stats.json"), "-seed", str(ctx.seed), "-reps", "40" if thorough else "8"], timeout=2400)
    st = json.load(open(ctx.path("stats.json")))
    for k in ("NEW_TRANSACTION", "REVERTED_TRANSACTION", "SET_METADATA/ACCOUNT", "SET_METADATA/TRANSACTION", "DELETE_METADATA/ACCOUNT", "DELETE_METADATA/TRANSACTION"):
        if st["by_kind"].get(k, 0) == 0:
            raise Infra("vacuity guard: no %s entry instantiated" % k)
    o = ctx.tlc("LogChainObs", "SPECIFICATION OSpec\nCONSTANTS\n  ResultFile = \"%s\"\n  MaxReport = 4\nPOSTCONDITION Post\nCHECK_DEADLOCK FALSE\n" % res,
                "obs", workers=1, timeout=2400)
    if o["status"] != "ok" or "OBS-VERDICT" not in o["output"]:
        raise Infra("LogChainObs did not deliver a verdict (%s)" % o["status"])
    verdict = o["output"].split("OBS-VERDICT", 1)[1].split("OBS-COUNTS")[0]
    counts = dict((m.group(1), int(m.group(2))) for m in re.finditer(r'(\w+) \|-> (\d+)', o["output"].split("OBS-COUNTS", 1)[1]))
    rl = common.read_ndjson(res)
    for m in re.finditer(r'<<"(\w+)", (\d+)>>', verdict):
        r = rl[int(m.group(2)) - 1]
        keys = ("jsonReadBack", "jsonSameContent", "jsonHashOk", "rowReadBack", "rowSameContent", "rowHashOk")
        bad = [(e, ob) for e, ob in zip(r["entries"], r["obs"]) if not all(ob[k] for k in keys)]
        e, ob = bad[0] if bad else (r["entries"][0], r["obs"][0])
        feats = [e["kind"]] + [e[k] for k in ("time", "amount", "meta", "key", "id") if e[k] not in ("micro", "small", "empty", "none")]
        sig = "%s@%s" % (m.group(1), "/".join(feats))
        ctx.violation(sig, "%s fails for a %s log (classes %s): %s" % (m.group(1), e["kind"], json.dumps(e), json.dumps(ob)),
                      {"kind": "c13-history", "case": {"entries": r["entries"]}})
    ctx.coverage.update({
        "evaluations": st["logs"], "distinct_nontrivial": st["histories"],
        "rule": "histories = every single entry of the pool (6 kind/target combinations x time / amount / metadata / key / id classes that matter for the kind) + every chain of 2..%d entries over one representative per kind; each instantiated %s times with values drawn from seeded pools (nanosecond and far dates, zone offsets, amounts up to 2^200, unicode / quoted metadata, deleted keys and idempotency keys needing JSON escapes, 255-char keys, ids above 2^53, the last instants of year 9999 as ParseTime accepts them); distinct = distinct histories" % (4 if thorough else 3, "40" if thorough else "8"),
        "logs_round_tripped": st["logs"], "by_kind": st["by_kind"], "model_states": g.get("distinct", 0), "predicate_failures": counts,
        "samples": st["samples"][:1], "exhaustive": False,
    })
    ctx.assumptions += ["the database row is the ledgerstore.Logs struct built the way Store.InsertLogs builds it; PostgreSQL's own jsonb / timestamptz handling is not in the loop",
                        "value domains are sampled from pools (encode/decode fidelity is not something a TLA+ model decides); the histories and the chain law come from LogChain.tla"]


def replay(ctx, path):
    art = json.load(open(path))
    hist = ctx.path("h.ndjson")
    with open(hist, "w") as f:
        f.write(json.dumps(art["replay"]["case"]) + "\n")
    binp = ctx.build("codecconf")
    res = ctx.path("r.ndjson")
    ctx.run([binp, "-in", hist, "-out", res, "-stats", ctx.path("s.json"), "-reps", "50"], timeout=300)
    o = ctx.tlc("LogChainObs", "SPECIFICATION OSpec\nCONSTANTS\n  ResultFile = \"%s\"\n  MaxReport = 4\nPOSTCONDITION Post\nCHECK_DEADLOCK FALSE\n" % res, "obs", workers=1)
    verdict = o["output"].split("OBS-VERDICT", 1)[1].split("OBS-COUNTS")[0]
    for m in re.finditer(r'<<"(\w+)", (\d+)>>', verdict):
        ctx.violation(art["signature"], m.group(1), art["replay"])
    ctx.coverage.update({"evaluations": 50, "distinct_nontrivial": 2, "rule": "replay", "samples": common.read_ndjson(res)[:1]})
