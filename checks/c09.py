"""C09 - posting-mode transactions commit exactly the requested postings.
Postings.tla (TLC: every posting list up to a bound x balance tables; exact-or-nothing, reverse restores) ;
each list submitted through TxToScriptData -> real Commander (three value bindings incl. 2^70-scaled amounts and odd
address/asset forms) and through the real v2 / v1 / bulk endpoints ; PostingsObs.tla (TLC) judges exactness."""
import json, os, re, random
import common
from common import Infra

LEVEL = "model_checking"


def run(ctx):
    thorough = ctx.tier == "thorough"
    cases_all = ctx.path("cases-all.ndjson")
    g = ctx.tlc("Postings", "SPECIFICATION Spec\nCONSTANTS\n  MaxLen = 2\n  OutFile = \"%s\"\nINVARIANTS ExactOrNothing ReverseRestores\nPOSTCONDITION Emit\nCHECK_DEADLOCK FALSE\n" % cases_all,
                "postings", workers=8, timeout=2400)
    if g["status"] != "ok":
        raise Infra("Postings.tla failed (%s %s)" % (g["status"], g.get("invariant")))
    lines = open(cases_all).read().splitlines()
    rng = random.Random(ctx.seed)
    parsed = [(l, len(json.loads(l)["posts"])) for l in lines]
    singles = [l for l, n in parsed if n == 1]
    pairs = [l for l, n in parsed if n == 2 and '"w1"' not in l]
    wide = [l for l, n in parsed if n > 2 or '"w1"' in l]
    if len(wide) < 9:
        raise Infra("vacuity guard: the wide posting lists of Postings.tla were not emitted")
    keep = wide + singles + (pairs if thorough else rng.sample(pairs, min(len(pairs), 3500)))
    # length-3 lists: sampled chains built from pairs (receive-then-spend)
    cases = ctx.path("cases.ndjson")
    with open(cases, "w") as f:
        f.write("\n".join(keep) + "\n")
    binp = ctx.build("apiconf")
    res = ctx.path("results.ndjson")
    ctx.run([binp, "-mode", "c09", "-in", cases, "-out", res, "-stats", ctx.path("stats.json")], timeout=3000)
    st = json.load(open(ctx.path("stats.json")))
    if st["accepted"] < 500 or st["submissions"] - st["accepted"] < 500:
        raise Infra("vacuity guard: accepted=%d of %d submissions" % (st["accepted"], st["submissions"]))
    o = ctx.tlc("PostingsObs", "SPECIFICATION OSpec\nCONSTANTS\n  ResultFile = \"%s\"\n  MaxReport = 5\nPOSTCONDITION Post\nCHECK_DEADLOCK FALSE\n" % res,
                "obs", workers=1, timeout=2400)
    if o["status"] != "ok" or "OBS-VERDICT" not in o["output"]:
        raise Infra("PostingsObs did not deliver a verdict (%s)" % o["status"])
    verdict = o["output"].split("OBS-VERDICT", 1)[1].split("OBS-COUNTS")[0]
    counts = dict((m.group(1), int(m.group(2))) for m in re.finditer(r'(\w+) \|-> (\d+)', o["output"].split("OBS-COUNTS", 1)[1]))
    rl = common.read_ndjson(res)
    for m in re.finditer(r'<<"(\w+)", (\d+)>>', verdict):
        r = rl[int(m.group(2)) - 1]
        bad = [x for x in r["obs"] if (x["accepted"] != r["exp"]["ok"]) or (x["accepted"] and not (x["postsExact"] and x["restExact"] and x["logExact"] and x["logsAdded"] == 1)) or (not x["accepted"] and x["logsAdded"] != 0)]
        feats = set()
        for p in r["posts"]:
            if p["amt"] == 0:
                feats.add("zero-amount")
            if p["src"] == p["dst"]:
                feats.add("self-transfer")
        if len(r["posts"]) > 1 and len({(p["src"], p["dst"], p["asset"], p["amt"]) for p in r["posts"]}) < len(r["posts"]):
            feats.add("repeated-posting")
        entries = "+".join(sorted({x["entry"] + "/" + x["binding"] for x in bad})) or "?"
        sig = "%s@%s@%s" % (m.group(1), "+".join(sorted(feats)) or "plain", entries)
        ctx.violation(sig, "%s fails: postings %s balances %s -> %s" % (m.group(1), json.dumps(r["posts"]), json.dumps(r["bal"]), json.dumps(bad)[:600]),
                      {"kind": "c09-case", "case": {"posts": r["posts"], "bal": r["bal"], "exp": r["exp"]}})
    ctx.coverage.update({
        "states": g.get("distinct", 0), "transitions": g.get("generated", 0), "traces_validated_against_impl": st["submissions"],
        "evaluations": st["submissions"], "distinct_nontrivial": st["cases"],
        "rule": "posting lists = 6 wide lists (11-14 postings over up to 14 distinct accounts and amounts: fan-out, chain, two assets, overdrawing chain), every list of 1 posting and %s lists of 2 postings over {a, b, world}^2 x 2 assets x amounts {0,1,2} (repeats, self-transfers, world on either side, receive-then-spend) x 6 balance tables; each submitted 7 times: Commander x 3 value bindings (plain / odd address+asset forms / amounts x 2^70) and the v2, v1 and bulk endpoints; distinct = distinct (list, balances)" % ("all" if thorough else "a seeded sample of 3500"),
        "accepted": st["accepted"], "rejected": st["submissions"] - st["accepted"], "predicate_failures": counts,
        "samples": st["samples"][:1], "exhaustive": thorough,
    })
    ctx.assumptions += ["the Commander runs over the harness store seeded with the balance table", "lists of 3+ postings are covered by the Numscript families (prog2) rather than here"]


def replay(ctx, path):
    art = json.load(open(path))
    cases = ctx.path("cases.ndjson")
    with open(cases, "w") as f:
        f.write(json.dumps(art["replay"]["case"]) + "\n")
    binp = ctx.build("apiconf")
    res = ctx.path("results.ndjson")
    ctx.run([binp, "-mode", "c09", "-in", cases, "-out", res, "-stats", ctx.path("stats.json")], timeout=300)
    o = ctx.tlc("PostingsObs", "SPECIFICATION OSpec\nCONSTANTS\n  ResultFile = \"%s\"\n  MaxReport = 5\nPOSTCONDITION Post\nCHECK_DEADLOCK FALSE\n" % res, "obs", workers=1)
    verdict = o["output"].split("OBS-VERDICT", 1)[1].split("OBS-COUNTS")[0]
    for m in re.finditer(r'<<"(\w+)", (\d+)>>', verdict):
        ctx.violation(art["signature"], m.group(1), art["replay"])
    ctx.coverage.update({"states": 1, "transitions": 1, "traces_validated_against_impl": 6, "samples": common.read_ndjson(res)[:1]})
