"""C03 - decided with Numscript.tla (see numscript.py)."""
import numscript
LEVEL = numscript.LEVEL
def run(ctx): numscript.run_prop(ctx, "C03")
def replay(ctx, path): numscript.replay_prop(ctx, "C03", path)
